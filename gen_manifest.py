#!/usr/bin/env python3
"""Writes MANIFEST.json from one table, so that it is valid at every commit."""
import json, os
HERE = os.path.dirname(os.path.abspath(__file__))

BASELINE_OFF = "cd /repo && /venv/bin/python -m pytest -ra -q -p no:cacheprovider --timeout=900 --continue-on-collection-errors"

CLAIMED = {
 "C05": dict(ref="4.1", technique="deterministic simulation: seeded insert/update/remove histories (one heap or several interleaved) with rejected-operation faults (remove on empty, insert on full, refused policy assignment), checked online against a sequential priority-queue reference model; plus recorded heap traffic of real fits",
   text="Seeded exploration of operation histories (synthetic and recorded from real model fits) on the real Heap, each step checked against a dict-based priority-queue model, with drain and exactly-once history check; ddmin-minimised replay files. Sampling, not proof: the right level for a history-quantified data-structure property in a pure-Python library.",
   note="Trusts the reference model (a dict of queued ids) and the stated quantifier (ids < capacity, each id inserted once, improving updates, no NaN keys). Internals (p/pos/color) are never part of a verdict."),
}

BUILDING = {}

NA_REASON = {
 "C01": "pure function of one fit's arguments (fresh Subgraph and Heap per call, no PRNG, file, clock or shared state): empty schedule and fault space for a simulator (DESIGN.md 5)",
 "C02": "prototype selection is the same single-call pure computation (Prim on a fresh heap); nothing for a scheduler or fault injector to vary (DESIGN.md 5)",
 "C03": "input-quantified: the cost-ordered scan reads a fixed fitted forest and one query; its history aspect is claimed under C09 (DESIGN.md 5)",
 "C04": "a consequence of C01-C03 on one fit+predict; no history, PRNG, file or interleaving involved (DESIGN.md 5)",
 "C06": "47 stateless closed-form formulas; their only history dependence (the in-place epsilon shift) is claimed under C07 (DESIGN.md 5)",
 "C08": "metric axioms over input vectors: stateless numerics, no schedule or fault dimension (DESIGN.md 5)",
 "C11": "a metamorphic relation between two independent pure runs; the permutation is an input, not a schedule the library can observe (DESIGN.md 5)",
 "C12": "k-NN arcs and densities of one create_arcs/calculate_pdf call on a fresh subgraph; input-quantified (DESIGN.md 5)",
 "C13": "well-formedness of the density forest after one fit; single-call pure computation (DESIGN.md 5)",
 "C14": "k-nearest max-min rule for one query against a fixed model; input-quantified, its batch-position aspect is claimed under C09 (DESIGN.md 5)",
 "C15": "semi-supervised forest of one fit; pure function of its arguments like C01 (DESIGN.md 5)",
 "C16": "arg-best over k inside one deterministic fit; observing it would be monitoring a run with no nondeterminism to control (DESIGN.md 5)",
 "C20": "evaluation measures are stateless arithmetic on two label vectors (DESIGN.md 5)",
}

def main():
    checks = []
    for pid, c in sorted(CLAIMED.items()):
        checks.append({
            "property_id": pid,
            "quick_cmd": "./check %s quick" % pid,
            "thorough_cmd": "./check %s thorough" % pid,
            "evidence_file": "/verif/evidence/%s.json" % pid,
            "replay_cmd_template": "./check %s --replay {path}" % pid,
            "engine": "opfython-dst",
            "level_claimed": {"category": "exploration", "text": c["text"], "design_ref": "DESIGN.md " + c["ref"]},
            "level_note": c["note"],
            "technique": c["technique"],
        })
    na = [{"property_id": k, "reason": v} for k, v in sorted(NA_REASON.items())]
    na += [{"property_id": k, "reason": v} for k, v in sorted(BUILDING.items()) if k not in CLAIMED]
    m = {
        "version": 1,
        "setup_cmd": "./check setup",
        "hooks": {
            "guard": "OPFYTHON_VERIF",
            "enable": "none needed: every seam (module attributes Heap / distance_fn / np.random.* / opf_accuracy / core.opf.open, and the file system) is taken from outside the library at run time; no hook commit exists in /repo",
            "baseline_off_cmd": BASELINE_OFF,
            "source_commits": [],
            "add_only": True,
        },
        "engines": [{
            "name": "opfython-dst",
            "path": "/verif/sim",
            "serves_properties": sorted(CLAIMED),
            "kind_free_text": "deterministic simulation with fault injection: one seeded scheduler per run drives the real library through its public API (operation histories, owned numpy PRNG, per-run scratch file system, injected I/O and aborted-call faults), oracles = small reference models and pristine twins, ddmin-minimised replay files re-executed in a fresh interpreter",
        }],
        "checks": checks,
        "not_applicable": na,
        "notes": "Python only; checks import opfython from /repo's working tree (or $VERIF_REPO) at run time. VERIF_SEED selects the batch. Exit 0 held / 1 VIOLATION (replay reproduced in a fresh interpreter) / 2 harness error (no verdict).",
    }
    with open(os.path.join(HERE, "MANIFEST.json"), "w") as f:
        json.dump(m, f, indent=1)
        f.write("\n")

if __name__ == "__main__":
    import sys
    sys.path.insert(0, HERE)
    try:
        import manifest_table as T
        CLAIMED.update(T.CLAIMED); BUILDING.update(T.BUILDING)
    except ImportError:
        pass
    main()
