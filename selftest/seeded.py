"""Run the registered checks against the seeded changes kept under /verif/seeded/<id>/.

Each directory holds patch.diff (a change to gugarosa/opfython that breaks one property while
the existing suite still passes), the author's demonstration and meta.json.  The patch is
applied to a scratch copy of /repo outside /repo and /verif (never to /repo itself here), the
property's quick check is run with VERIF_REPO pointing at the copy and must exit 1 with a
VIOLATION line; the copy is removed afterwards.

  ./check selftest seeded [ids...] [suite] [demo] [tier=thorough]
"""

import json
import os
import shutil
import subprocess
import sys
import time

HERE = os.path.dirname(os.path.abspath(__file__))
VERIF = os.path.dirname(HERE)
SEEDED = os.path.join(VERIF, "seeded")


def _scratch():
    base = "/dev/shm" if os.path.isdir("/dev/shm") and os.access("/dev/shm", os.W_OK) else "/tmp"
    return os.path.join(base, "verif-seeded-tree-%s" % os.environ.get("VERIF_MUTANT_LANE", "0"))


def make_copy(dst):
    shutil.rmtree(dst, ignore_errors=True)
    os.makedirs(dst)
    for item in ("opfython", "tests", "data", "pytest.ini", "setup.py", "README.md"):
        src = os.path.join("/repo", item)
        if os.path.isdir(src):
            shutil.copytree(src, os.path.join(dst, item), symlinks=True, ignore=shutil.ignore_patterns("__pycache__"))
        elif os.path.exists(src):
            shutil.copy2(src, os.path.join(dst, item))


def apply_patch(dst, patch):
    p = subprocess.run(["patch", "-p1", "--no-backup-if-mismatch", "-i", patch], cwd=dst, capture_output=True, text=True)
    if p.returncode != 0:
        raise RuntimeError("patch does not apply: %s\n%s" % (patch, p.stdout + p.stderr))


def main(rest, check):
    ids = [r for r in rest if not ("=" in r or r in ("suite", "demo"))]
    tier = "quick"
    for r in rest:
        if r.startswith("tier="):
            tier = r[5:]
    with_suite = "suite" in rest
    with_demo = "demo" in rest
    dirs = sorted(d for d in os.listdir(SEEDED) if os.path.isdir(os.path.join(SEEDED, d)))
    missed = []
    rows = []
    for d in dirs:
        if ids and d not in ids and not any(d.startswith(i) for i in ids):
            continue
        meta = json.load(open(os.path.join(SEEDED, d, "meta.json")))
        pid = meta["property"]
        dst = _scratch()
        try:
            make_copy(dst)
            apply_patch(dst, os.path.join(SEEDED, d, "patch.diff"))
            suite = "skipped"
            if with_suite:
                p = subprocess.run(["/venv/bin/python", "-m", "pytest", "-q", "-x", "-p", "no:cacheprovider", "--timeout=900"], cwd=dst, capture_output=True, text=True, env=dict(os.environ, PYTHONPATH=dst))
                suite = "passes" if p.returncode == 0 else "FAILS"
            demo = "skipped"
            if with_demo and os.path.exists(os.path.join(SEEDED, d, "demo.py")):
                p = subprocess.run(["/venv/bin/python", os.path.join(SEEDED, d, "demo.py")], cwd=dst, capture_output=True, text=True, env=dict(os.environ, PYTHONPATH=dst), timeout=900)
                demo = "fails(as intended)" if p.returncode != 0 else "PASSES(unexpected)"
            t0 = time.time()
            env = dict(os.environ, VERIF_REPO=dst, PYTHONHASHSEED="0")
            p = subprocess.run([sys.executable, check, pid, tier], env=env, capture_output=True, text=True, timeout=4 * 3600)
            dt = time.time() - t0
            vio = [ln for ln in p.stdout.splitlines() if ln.startswith("VIOLATION ")]
            clause = [ln.strip() for ln in p.stdout.splitlines() if ln.strip().startswith("violation clause=")]
            caught = p.returncode == 1 and bool(vio)
            by = pid
            if not caught:
                # a change may break another property as well (recorded in meta.json after analysis):
                # which check reports it is part of the record
                for other in meta.get("also_violates", []):
                    p2 = subprocess.run([sys.executable, check, other, tier], env=env, capture_output=True, text=True, timeout=4 * 3600)
                    vio2 = [ln for ln in p2.stdout.splitlines() if ln.startswith("VIOLATION ")]
                    if p2.returncode == 1 and vio2:
                        caught, by = True, other
                        clause = [ln.strip() for ln in p2.stdout.splitlines() if ln.strip().startswith("violation clause=")]
                        p = p2
                        break
            rows.append((d, pid, caught))
            print("seeded %-34s %-4s %s (exit %d, %s tier %.0fs, suite %s, demo %s) %s" % (d, pid, ("CAUGHT" if by == pid else "CAUGHT-BY-" + by) if caught else "MISSED", p.returncode, tier, dt, suite, demo, clause[0][:120] if clause else ""))
            if not caught:
                missed.append(d)
                print(p.stdout[-800:])
                print(p.stderr[-800:])
            sys.stdout.flush()
        finally:
            shutil.rmtree(dst, ignore_errors=True)
    print("seeded: %d run, %d caught, %d missed %s" % (len(rows), sum(1 for r in rows if r[2]), len(missed), missed))
    return 1 if missed else 0
