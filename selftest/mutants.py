"""Sensitivity mutants: realistic breaks of one claimed property each.  Every entry is a
textual edit of one file of a scratch copy of /repo (never of /repo itself).  Edits are
exact-substring replacements that must match exactly once, so a refactor that invalidates a
mutant is reported instead of silently testing nothing."""

H = "opfython/core/heap.py"

MUTANTS = [
    # ------------------------------------------------------------------ C05
    dict(pid="C05", name="siftdown-right-compares-with-i", file=H,
         old="if right <= self.last and self.cost[self.p[right]] < self.cost[self.p[j]]:",
         new="if right <= self.last and self.cost[self.p[right]] < self.cost[self.p[i]]:"),
    dict(pid="C05", name="siftdown-max-right-compares-with-i", file=H,
         old="if right <= self.last and self.cost[self.p[right]] > self.cost[self.p[j]]:",
         new="if right <= self.last and self.cost[self.p[right]] > self.cost[self.p[i]]:"),
    dict(pid="C05", name="dad-i-div-2", file=H,
         old="return int(((i - 1) / 2))", new="return int((i / 2))"),
    dict(pid="C05", name="is-full-off-by-one", file=H,
         old="if self.last == (self.size - 1):", new="if self.last >= (self.size - 2) and self.size > 2:"),
    dict(pid="C05", name="remove-on-empty-returns-0", file=H,
         old="            return p\n\n        return False", new="            return p\n\n        return 0"),
    dict(pid="C05", name="update-white-does-not-insert", file=H,
         old="        if self.color[p] == c.WHITE:\n            self.insert(p)\n        else:",
         new="        if self.color[p] == c.WHITE and self.last < 3:\n            self.insert(p)\n        else:"),
    dict(pid="C05", name="goup-min-stops-one-level-early", file=H,
         old="            while i > 0 and self.cost[self.p[j]] > self.cost[self.p[i]]:",
         new="            while j > 0 and self.cost[self.p[j]] > self.cost[self.p[i]]:"),
    dict(pid="C05", name="remove-forgets-pos-of-moved-element", file=H,
         old="            self.pos[self.p[0]] = 0\n            self.p[self.last] = -1",
         new="            self.p[self.last] = -1"),
    dict(pid="C05", name="godown-max-left-uses-min-comparison", file=H,
         old="if left <= self.last and self.cost[self.p[left]] > self.cost[self.p[i]]:",
         new="if left <= self.last and self.cost[self.p[left]] < self.cost[self.p[i]]:"),
    dict(pid="C05", name="godown-pos-not-updated-for-one-side", file=H,
         old="            self.pos[self.p[i]] = i\n            self.pos[self.p[j]] = j\n\n            self.go_down(j)",
         new="            self.pos[self.p[j]] = j\n\n            self.go_down(j)"),
]
