#!/usr/bin/env python3
"""Confirm a sub-agent's seeded change myself and file it under /verif/seeded/<id>/.

  import_seed.py <src dir with patch.diff demo.py notes.md> <id> <property> "<needs>"
Checks, in a scratch copy of /repo outside /repo and /verif:
  (1) the patch applies, (2) the existing suite passes with it, (3) demo.py fails with it,
  (4) demo.py passes without it.  Only then the directory is created.
"""
import json, os, shutil, subprocess, sys
sys.path.insert(0, os.path.dirname(os.path.dirname(os.path.abspath(__file__))))
from selftest.seeded import make_copy, apply_patch

def run(cmd, cwd):
    return subprocess.run(cmd, cwd=cwd, capture_output=True, text=True, env=dict(os.environ, PYTHONPATH=cwd), timeout=1800)

def main():
    src, sid, pid, needs = sys.argv[1:5]
    dst = "/dev/shm/verif-import-seed"
    ran = []
    try:
        make_copy(dst)
        demo = os.path.join(src, "demo.py")
        p = run(["/venv/bin/python", demo], dst)
        ran.append("demo on unchanged copy: exit %d" % p.returncode)
        if p.returncode != 0:
            print("REJECT: demo fails on the unchanged tree\n", p.stdout[-500:], p.stderr[-500:]); return 1
        apply_patch(dst, os.path.join(src, "patch.diff"))
        p = run(["/venv/bin/python", "-m", "pytest", "-q", "-p", "no:cacheprovider", "--timeout=900"], dst)
        tail = p.stdout.strip().splitlines()[-1] if p.stdout.strip() else ""
        ran.append("existing suite with patch: exit %d (%s)" % (p.returncode, tail))
        if p.returncode != 0:
            print("REJECT: suite fails with the patch:", tail); return 1
        p = run(["/venv/bin/python", demo], dst)
        ran.append("demo with patch: exit %d" % p.returncode)
        if p.returncode == 0:
            print("REJECT: demo passes with the patch"); return 1
        out = os.path.join(os.path.dirname(os.path.dirname(os.path.abspath(__file__))), "seeded", sid)
        os.makedirs(out, exist_ok=True)
        for f in ("patch.diff", "demo.py", "notes.md"):
            if os.path.exists(os.path.join(src, f)):
                shutil.copy2(os.path.join(src, f), os.path.join(out, f))
        meta = {"id": sid, "property": pid, "needs_to_manifest": needs, "origin": "independent sub-agent given only the property text and a scratch worktree", "confirmed_by_me": ran, "demo_output_with_patch": (p.stdout + p.stderr)[-600:]}
        json.dump(meta, open(os.path.join(out, "meta.json"), "w"), indent=1)
        print("ACCEPTED", sid, ran)
        return 0
    finally:
        shutil.rmtree(dst, ignore_errors=True)

if __name__ == "__main__":
    sys.exit(main())
