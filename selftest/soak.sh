#!/bin/bash
# soak: every quick check under several VERIF_SEED values; prints one line per run
cd "$(dirname "$0")/.."
for s in "$@"; do
  for p in C05 C07 C09 C10 C17 C18 C19; do
    out=$(VERIF_SEED=$s ./check $p ${TIER:-quick} 2>&1); rc=$?
    echo "seed=$s $p exit=$rc $(echo "$out" | grep -E 'VIOLATION|HARNESS-ERROR|KNOWN-FINDING' | head -3 | tr '\n' ' ')"
  done
done
