"""Self-tests of the machinery itself (DESIGN.md 3.6).

determinism: every machine, N run indices, executed (a) with 16 workers, (b) with 1 worker,
             (c) in a fresh interpreter under another PYTHONHASHSEED with a cold numba cache
             dir and another cwd; the per-run event-log digests must be identical.
mutants:     each entry of selftest/mutants.py is applied to a scratch copy of /repo
             (outside /repo and /verif), the quick check is run with VERIF_REPO pointing at
             it and must exit 1 with a replay that reproduced in a fresh process.
"""

import json
import os
import shutil
import subprocess
import sys
import tempfile
import time

HERE = os.path.dirname(os.path.abspath(__file__))
VERIF = os.path.dirname(HERE)
CLAIMED = ["C05", "C07", "C09", "C10", "C17", "C18", "C19"]


def _scratch_root():
    base = "/dev/shm" if os.path.isdir("/dev/shm") and os.access("/dev/shm", os.W_OK) else tempfile.gettempdir()
    return base


def _digests(check, pid, runs, workers, env_extra, cwd=None):
    fd, out = tempfile.mkstemp(prefix="verif-dig-", suffix=".json", dir=_scratch_root())
    os.close(fd)
    env = dict(os.environ)
    env.update(env_extra)
    try:
        p = subprocess.run([sys.executable, check, pid, "quick", "--digests", out, "--runs", str(runs), "--workers", str(workers)], env=env, capture_output=True, text=True, timeout=3600, cwd=cwd)
        if p.returncode != 0:
            raise RuntimeError("digest run failed: %s\n%s" % (p.returncode, p.stderr[-2000:]))
        with open(out) as f:
            return json.load(f)
    finally:
        os.unlink(out)


def determinism(check, pids, runs):
    bad = 0
    for pid in pids:
        t0 = time.time()
        a = _digests(check, pid, runs, 16, {"PYTHONHASHSEED": "0"})
        b = _digests(check, pid, runs, 1 if runs <= 3000 else 4, {"PYTHONHASHSEED": "0"})
        cold = tempfile.mkdtemp(prefix="verif-coldcache-", dir=_scratch_root())
        try:
            c = _digests(check, pid, runs, 7, {"PYTHONHASHSEED": "12345", "NUMBA_CACHE_DIR": cold}, cwd=cold)
        finally:
            shutil.rmtree(cold, ignore_errors=True)
        da, db, dc = (dict(map(tuple, x["digests"])) for x in (a, b, c))
        diffs_ab = [i for i in da if da[i] != db.get(i)]
        diffs_ac = [i for i in da if da[i] != dc.get(i)]
        empty = sum(1 for v in da.values() if not v)
        status = "OK" if not diffs_ab and not diffs_ac and len(da) == len(db) == len(dc) else "DIVERGED"
        print(
            "determinism %s: %d runs x 3 executions (16 workers / few workers / fresh interpreter, other PYTHONHASHSEED, cold numba cache, other cwd): %s"
            " (diff 16-vs-few=%d, diff vs fresh=%d, runs without digest=%d, harness errors=%d, violating=%d) %.1fs"
            % (pid, len(da), status, len(diffs_ab), len(diffs_ac), empty, a["harness_errors"], a["violating"], time.time() - t0)
        )
        if status != "OK":
            bad += 1
            print("   first diverging run indices:", (diffs_ab + diffs_ac)[:10])
    return 1 if bad else 0


def apply_mutant(root, m):
    path = os.path.join(root, m["file"])
    with open(path) as f:
        src = f.read()
    edits = m["edits"] if "edits" in m else [(m["old"], m["new"]) + ((m["nth"], m["of"]) if "nth" in m else ())]
    for e in edits:
        old, new = e[0], e[1]
        nth, of = (e[2], e[3]) if len(e) > 2 else (0, 1)
        if src.count(old) != of:
            raise RuntimeError("mutant %s/%s: pattern occurs %d times in %s (expected %d)" % (m["pid"], m["name"], src.count(old), m["file"], of))
        parts = src.split(old)
        src = old.join(parts[: nth + 1]) + new + old.join(parts[nth + 1 :])
    with open(path, "w") as f:
        f.write(src)


def run_suite(root):
    """The repository's own test-suite on the mutated copy (mutants must survive it)."""
    p = subprocess.run(
        ["/venv/bin/python", "-m", "pytest", "-q", "-x", "-p", "no:cacheprovider", "--timeout=900", "--deselect", "tests/opfython/models/test_supervised.py::test_supervised_opf_learn"],
        cwd=root,
        capture_output=True,
        text=True,
        timeout=1800,
        env=dict(os.environ, PYTHONPATH=root),
    )
    tail = p.stdout.strip().splitlines()[-1] if p.stdout.strip() else ""
    return p.returncode == 0, tail


def mutants(check, pids, with_suite, only=None):
    from selftest.mutants import MUTANTS

    scratch = os.path.join(_scratch_root(), "verif-mutant-tree-%s" % (os.environ.get("VERIF_MUTANT_LANE", "0")))
    survived = []
    rows = []
    for m in MUTANTS:
        if pids and m["pid"] not in pids:
            continue
        if only and m["name"] not in only:
            continue
        shutil.rmtree(scratch, ignore_errors=True)
        os.makedirs(scratch)
        try:
            for item in ("opfython", "tests", "data", "pytest.ini", "setup.py", "README.md"):
                src = os.path.join("/repo", item)
                dst = os.path.join(scratch, item)
                if os.path.isdir(src):
                    shutil.copytree(src, dst, symlinks=True, ignore=shutil.ignore_patterns("__pycache__"))
                elif os.path.exists(src):
                    shutil.copy2(src, dst)
            apply_mutant(scratch, m)
            suite = ("skipped", "")
            if with_suite:
                ok, tail = run_suite(scratch)
                suite = ("passes" if ok else "FAILS", tail)
            env = dict(os.environ, VERIF_REPO=scratch, PYTHONHASHSEED="0")
            t0 = time.time()
            p = subprocess.run([sys.executable, check, m["pid"], "quick"] + m.get("args", []), env=env, capture_output=True, text=True, timeout=3600)
            dt = time.time() - t0
            vio = [ln for ln in p.stdout.splitlines() if ln.startswith("VIOLATION ")]
            clause = [ln.strip() for ln in p.stdout.splitlines() if ln.strip().startswith("violation clause=")]
            caught = p.returncode == 1 and bool(vio)
            rows.append((m["pid"], m["name"], caught, p.returncode, suite[0], dt, clause[:1]))
            print("mutant %-4s %-44s %s (exit %d, suite %s, %.0fs) %s" % (m["pid"], m["name"], "CAUGHT" if caught else "SURVIVED", p.returncode, suite[0], dt, clause[0][:110] if clause else ""))
            if not caught:
                survived.append(m)
                print(p.stdout[-1500:])
                print(p.stderr[-1500:])
            sys.stdout.flush()
        finally:
            shutil.rmtree(scratch, ignore_errors=True)
    print("mutants: %d run, %d caught, %d survived" % (len(rows), sum(1 for r in rows if r[2]), len(survived)))
    return 1 if survived else 0


def main(what, rest, check):
    pids = [r for r in rest if r.startswith("C")]
    opts = [r for r in rest if not r.startswith("C")]
    if what == "determinism":
        runs = 400
        for o in opts:
            if o.startswith("runs="):
                runs = int(o[5:])
        return determinism(check, pids or CLAIMED, runs)
    if what == "mutants":
        only = [o[5:] for o in opts if o.startswith("only=")]
        return mutants(check, pids, "suite" in opts, only or None)
    if what == "seeded":
        from selftest import seeded

        return seeded.main(rest, check)
    print("selftest determinism|mutants|seeded", file=sys.stderr)
    return 2
