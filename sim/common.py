"""Helpers shared by the machines: library-call wrapper, world generators, the
metric domain table and the state digests (DESIGN.md 3.2, 3.3)."""

import hashlib
import math
import struct

import numpy as np

from . import bootstrap as B
from .engine import SimAbort, SimTimeout, library_site, raised_violation, violation


class Stop(Exception):
    """Ends a run with a violation."""

    def __init__(self, viol):
        Exception.__init__(self, viol["clause"])
        self.violation = viol


class OutOfDomain(Exception):
    """Ends a run without a verdict (documented domain guard)."""


def lib_call(desc, fn, *a, ood=None, **kw):
    """Call into the library on a valid world.  An exception raised inside the
    tree under check is a violation of class ``raised``; the injected SimAbort
    passes through; an exception with no library frame is a harness error.
    ``ood(exc, site)`` may declare a documented out-of-domain stop."""
    try:
        return fn(*a, **kw)
    except (SimAbort, Stop, OutOfDomain):
        raise  # injected fault / verdict or domain guard raised by an observer inside the call
    except (Exception, SimTimeout) as exc:  # noqa: BLE001
        if ood is not None:
            site = library_site(exc, B.REPO_PKG)
            if site is not None and ood(exc, site):
                raise OutOfDomain()
        raise Stop(raised_violation(exc, B.REPO_PKG, desc))


def knn_all_zero_accuracy(exc, site):
    """KNNSupervisedOPF._learn leaves best_k unbound when every candidate k scores
    validation accuracy 0 - a C16 matter (DESIGN.md 3.2), never a verdict here."""
    return isinstance(exc, UnboundLocalError) and site[1] == "_learn"


# --------------------------------------------------------------------------- metrics

ALL_METRICS = [
    "additive_symmetric", "average_euclidean", "bhattacharyya", "bray_curtis", "canberra",
    "chebyshev", "chi_squared", "chord", "clark", "cosine", "dice", "divergence", "euclidean",
    "gaussian", "gower", "hamming", "hassanat", "hellinger", "jaccard", "jeffreys", "jensen",
    "jensen_shannon", "k_divergence", "kulczynski", "kullback_leibler", "log_euclidean",
    "log_squared_euclidean", "lorentzian", "manhattan", "matusita", "max_symmetric",
    "mean_censored_euclidean", "min_symmetric", "neyman", "non_intersection", "pearson", "sangvi",
    "soergel", "squared", "squared_chord", "squared_euclidean", "statistic", "topsoe",
    "vicis_symmetric1", "vicis_symmetric2", "vicis_symmetric3", "vicis_wave_hedges",
]

# metrics defined for all real vectors (norm type)
REAL_DOMAIN = {
    "average_euclidean", "chebyshev", "euclidean", "gaussian", "gower", "hamming",
    "log_euclidean", "log_squared_euclidean", "lorentzian", "manhattan", "non_intersection",
    "squared_euclidean",
}
# metrics wrapped by the epsilon-shift decorator on the unchanged tree (informational:
# used to steer workloads and to label findings, never to decide a verdict)
DECORATED = {
    "additive_symmetric", "bhattacharyya", "bray_curtis", "canberra", "chi_squared", "chord",
    "clark", "cosine", "dice", "divergence", "hassanat", "jaccard", "jeffreys", "jensen",
    "jensen_shannon", "k_divergence", "kulczynski", "kullback_leibler", "max_symmetric",
    "mean_censored_euclidean", "min_symmetric", "neyman", "pearson", "sangvi", "soergel",
    "squared", "statistic", "topsoe", "vicis_symmetric1", "vicis_symmetric2", "vicis_symmetric3",
    "vicis_wave_hedges",
}
# symmetric, non-negative dissimilarities that are well behaved on strictly positive data
# (used where the forest semantics matter: C17)
SYMMETRIC_SAFE = [
    "euclidean", "squared_euclidean", "log_euclidean", "log_squared_euclidean", "manhattan",
    "chebyshev", "average_euclidean", "gower", "lorentzian", "canberra", "squared_chord",
    "hellinger", "matusita", "bray_curtis", "soergel", "non_intersection",
]
ASYMMETRIC = {"kullback_leibler", "k_divergence", "neyman", "pearson"}


def metric_class(name):
    return "decorated" if name in DECORATED else "plain"


# --------------------------------------------------------------------------- data styles

STYLES_ANY = ["generic", "lattice", "dups", "zeros", "positive", "prob"]
TINY = [0.0, 0.0, 0.0, 1e-20, 3e-20, 5e-21, 1e-19, 5e-324, 2.5e-310, 1e-300]


def gen_value(rng, style):
    if style == "generic":
        return round(rng.uniform(-4.0, 4.0), 3)
    if style == "lattice":
        return float(rng.randint(0, 3))
    if style == "zeros":
        r = rng.random()
        if r < 0.45:
            return rng.choice(TINY)
        return round(rng.uniform(0.05, 2.0), 3)
    if style == "positive":
        return round(rng.uniform(0.05, 3.0), 3)
    if style == "prob":
        return round(rng.uniform(0.02, 1.0), 3)
    raise ValueError(style)


def gen_matrix(rng, n, d, style):
    if style == "dups":
        base = [[gen_value(rng, "lattice") for _ in range(d)] for _ in range(max(1, n // 2))]
        rows = [list(rng.choice(base)) for _ in range(n)]
        return rows
    rows = [[gen_value(rng, style) for _ in range(d)] for _ in range(n)]
    if style == "prob":
        out = []
        for r in rows:
            s = sum(r)
            out.append([v / s for v in r])
        rows = out
    return rows


def style_for_metric(rng, metric, allow_zeros=True):
    """A data style inside the metric's domain (ratio/log metrics get positive data;
    ``zeros`` puts exact zeros and tiny magnitudes in, which the properties name)."""
    if metric in REAL_DOMAIN:
        return rng.choice(["generic", "lattice", "dups", "positive", "zeros" if allow_zeros else "generic"])
    styles = ["positive", "prob", "positive"]
    if allow_zeros:
        styles.append("zeros")
    return rng.choice(styles)


def gen_labels(rng, n, n_classes):
    """Labels 0..K-1, every class present when n >= K."""
    k = max(1, min(n_classes, n))
    ys = list(range(k)) + [rng.randrange(k) for _ in range(n - k)]
    rng.shuffle(ys)
    return ys


def arr(rows):
    return np.array(rows, dtype=np.float64)


def iarr(v):
    return np.array(v, dtype=np.int64)


# --------------------------------------------------------------------------- memory layouts

FILL = -7.25  # value of the cells of an owning buffer that lie outside the caller's view


def lay_out(a, layout):
    """(owning buffer, the array the caller passes) for one of the memory layouts:
    c = C-contiguous, f = Fortran order (rows are strided views), strided = every second row /
    element of a larger buffer, cols = the leading columns of a wider buffer."""
    a = np.array(a, dtype=np.float64)
    if layout == "be":
        b = a.astype(">f8")  # non-native byte order: still the caller's data
        return b, b
    if layout == "f" and a.ndim == 2:
        b = np.asfortranarray(a)
        return b, b
    if layout == "strided":
        if a.ndim == 2:
            base = np.full((2 * a.shape[0], a.shape[1]), FILL)
            base[::2] = a
            return base, base[::2]
        base = np.full(2 * a.shape[0] + 1, FILL)
        base[1::2] = a
        return base, base[1::2]
    if layout == "cols" and a.ndim == 2:
        base = np.full((a.shape[0], a.shape[1] + 2), FILL)
        base[:, : a.shape[1]] = a
        return base, base[:, : a.shape[1]]
    return a, a



# --------------------------------------------------------------------------- digests


def fbits(x):
    """float64 bit pattern of a number (3 == 3.0; every NaN is the same NaN)."""
    try:
        f = float(x)
    except (TypeError, ValueError):
        return ("nonfloat", repr(x))
    if f != f:
        return "nan"
    return struct.pack("<d", f)


def abits(a):
    a = np.asarray(a)
    if a.dtype.kind == "f":
        b = np.ascontiguousarray(a, dtype=np.float64)
        if np.isnan(b).any():
            b = b.copy()
            b[np.isnan(b)] = np.nan  # canonical NaN
        return (a.shape, "f", b.tobytes())
    if a.dtype.kind in "iub":
        return (a.shape, "i", np.ascontiguousarray(a, dtype=np.int64).tobytes())
    return (a.shape, str(a.dtype), a.tobytes())


NODE_FIELDS = (
    "idx", "label", "predicted_label", "cluster_label", "cost", "density", "radius",
    "n_plateaus", "root", "status", "pred", "relevant",
)
SUB_FIELDS = ("n_clusters", "best_k", "constant", "density", "min_density", "max_density")


def safe_get(obj, name):
    """Attribute read that never raises: a model damaged by the code under check must
    show up as a *different state*, not as an exception inside the harness."""
    try:
        return getattr(obj, name)
    except Exception as exc:  # noqa: BLE001
        return "<unreadable:%s>" % type(exc).__name__


def _num(v, as_float):
    if isinstance(v, str) or v is None:
        return v
    try:
        return fbits(v) if as_float else int(v)
    except Exception:  # noqa: BLE001
        return repr(v)[:60]


def node_state(n, skip=()):
    out = []
    for f in NODE_FIELDS:
        if f in skip:
            continue
        v = safe_get(n, f)
        out.append((f, _num(v, isinstance(v, (float, np.floating)) or f in ("cost", "density", "radius"))))
    if "features" not in skip:
        feats = safe_get(n, "features")
        out.append(("features", abits(feats) if isinstance(feats, np.ndarray) else repr(feats)[:60]))
    if "adjacency" not in skip:
        adj = safe_get(n, "adjacency")
        out.append(("adjacency", tuple(_num(a, False) for a in adj) if isinstance(adj, (list, tuple, np.ndarray)) else repr(adj)[:60]))
    return tuple(out)


def subgraph_state(sg, skip=()):
    if sg is None or isinstance(sg, str):
        return sg
    nodes = safe_get(sg, "nodes")
    out = [("nodes", tuple(node_state(n, skip) for n in nodes) if isinstance(nodes, list) else repr(nodes)[:60])]
    order = safe_get(sg, "idx_nodes")
    out.append(("idx_nodes", tuple(_num(i, False) for i in order) if isinstance(order, list) else repr(order)[:60]))
    tr = safe_get(sg, "trained")
    out.append(("trained", tr if isinstance(tr, str) else bool(tr)))
    for f in SUB_FIELDS:
        if hasattr(sg, f) and f not in skip:
            out.append((f, _num(safe_get(sg, f), f not in ("n_clusters", "best_k"))))
    return tuple(out)


def model_state(m, skip=()):
    out = [("kind", _kind_name(m))]
    out.append(("distance", safe_get(m, "distance")))
    fn = safe_get(m, "distance_fn")
    out.append(("distance_fn", fn if isinstance(fn, str) else getattr(fn, "__name__", repr(type(fn)))))
    pf = safe_get(m, "pre_computed_distance")
    out.append(("pre_flag", pf if isinstance(pf, str) else bool(pf)))
    if "pre_distances" not in skip:
        pre = safe_get(m, "pre_distances")
        out.append(("pre", abits(pre) if isinstance(pre, np.ndarray) else (None if pre is None else repr(pre)[:60])))
    for f in ("min_k", "max_k"):
        if hasattr(type(m), f):
            out.append((f, _num(safe_get(m, f), False)))
    out.append(("subgraph", subgraph_state(safe_get(m, "subgraph"), skip)))
    return tuple(out)


def _kind_name(m):
    for cls in type(m).__mro__:
        if cls.__module__.startswith("opfython."):
            return cls.__name__
    return type(m).__name__


def dig(state):
    return hashlib.blake2b(repr(state).encode(), digest_size=12).hexdigest()


def first_diff(a, b, path=""):
    """Human-readable location of the first difference between two nested state tuples."""
    if type(a) is not type(b):
        return "%s: %r vs %r" % (path, _short(a), _short(b))
    if isinstance(a, tuple):
        if len(a) != len(b):
            return "%s: length %d vs %d" % (path, len(a), len(b))
        for i, (x, y) in enumerate(zip(a, b)):
            if x != y:
                key = x[0] if isinstance(x, tuple) and len(x) == 2 and isinstance(x[0], str) else i
                return first_diff(x, y, "%s/%s" % (path, key))
        return None
    if a != b:
        return "%s: %r vs %r" % (path, _short(a), _short(b))
    return None


def _short(v):
    if isinstance(v, bytes) and len(v) == 8:
        return struct.unpack("<d", v)[0]
    r = repr(v)
    return r if len(r) < 80 else r[:77] + "..."


def buf_digest(a):
    """Digest of the whole base buffer behind an array (views share their base)."""
    base = a
    while getattr(base, "base", None) is not None and isinstance(base.base, np.ndarray):
        base = base.base
    return hashlib.blake2b(np.ascontiguousarray(base).tobytes(), digest_size=12).hexdigest()
