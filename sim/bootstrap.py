"""Process bootstrap: import the tree under check with every ambient source of
nondeterminism that the properties do not depend on switched off.

Must be imported before anything imports ``opfython``.
"""

import logging
import os
import sys

VERIF_DIR = os.path.dirname(os.path.dirname(os.path.abspath(__file__)))
REPO = os.path.abspath(os.environ.get("VERIF_REPO", "/repo"))

# numba writes its on-disk cache here and never into the tree under check
os.environ.setdefault("NUMBA_CACHE_DIR", os.path.join(VERIF_DIR, ".cache", "numba"))
# one thread per process: the pool gives the parallelism, BLAS/numba threads
# would only add scheduling noise
for _v in ("OMP_NUM_THREADS", "OPENBLAS_NUM_THREADS", "MKL_NUM_THREADS", "NUMBA_NUM_THREADS"):
    os.environ.setdefault(_v, "1")

# the library logs wall-clock durations to stdout and to ./opfython.log; no
# property depends on them.  Disabling logging before import also keeps the
# delayed file handler from ever creating the log file.
logging.disable(logging.CRITICAL)

if sys.path[0] != REPO:
    sys.path.insert(0, REPO)

import numpy as np  # noqa: E402

np.seterr(all="ignore")

import warnings  # noqa: E402

warnings.filterwarnings("ignore")

import opfython  # noqa: E402

_loaded_from = os.path.dirname(os.path.dirname(os.path.abspath(opfython.__file__)))
if _loaded_from != REPO:
    raise RuntimeError(
        "opfython was imported from %s, expected the tree under check %s" % (_loaded_from, REPO)
    )

import opfython.math.distance as distance  # noqa: E402
import opfython.math.general as general  # noqa: E402
import opfython.math.random as orandom  # noqa: E402
import opfython.utils.constants as constants  # noqa: E402
import opfython.core.heap as heap_mod  # noqa: E402
import opfython.core.opf as opf_mod  # noqa: E402
import opfython.core.subgraph as subgraph_mod  # noqa: E402
import opfython.models.supervised as supervised_mod  # noqa: E402
import opfython.models.semi_supervised as semi_mod  # noqa: E402
import opfython.models.knn_supervised as knn_mod  # noqa: E402
import opfython.models.unsupervised as unsup_mod  # noqa: E402
import opfython.subgraphs.knn as knnsub_mod  # noqa: E402
import opfython.stream.loader as loader  # noqa: E402
import opfython.stream.parser as parser  # noqa: E402
import opfython.stream.splitter as splitter  # noqa: E402
import opfython.utils.converter as converter  # noqa: E402

REPO_PKG = os.path.join(REPO, "opfython") + os.sep


def warm_metrics():
    """Evaluate every registered metric once on float64 C-contiguous vectors so
    that forked workers inherit the compiled code (no JIT races, no per-worker
    compile cost)."""
    x = np.array([0.25, 0.5, 0.125, 0.75])
    y = np.array([0.5, 0.25, 0.375, 0.125])
    for name in sorted(distance.DISTANCES):
        try:
            distance.DISTANCES[name](x.copy(), y.copy())
        except Exception:  # a broken metric is the checks' business, not warm-up's
            pass
    # strided (non-contiguous) float64 views: a second numba specialisation per metric
    xs, ys = np.zeros(8), np.zeros(8)
    xs[::2], ys[::2] = x, y
    for name in sorted(distance.DISTANCES):
        try:
            distance.DISTANCES[name](xs[::2], ys[::2])
            distance.DISTANCES[name](xs[::2], y.copy())
            distance.DISTANCES[name](x.copy(), ys[::2])
        except Exception:
            pass
    # the few (metric, dtype) pairs that the non-float64 worlds use
    for name in DTYPE_METRICS:
        for dt in DTYPES:
            try:
                distance.DISTANCES[name](np.array([1, 2, 0, 3], dtype=dt), np.array([0, 2, 3, 1], dtype=dt))
            except Exception:
                pass


DTYPE_METRICS = ("manhattan", "chebyshev", "euclidean", "squared_euclidean", "log_squared_euclidean", "lorentzian")
DTYPES = ("float32", "int64", "uint8")
