"""C05 - the indexed heap against a sequential priority-queue model (DESIGN.md 4.1).

Two workloads:
  * ``synth``/``wide``: scheduler-generated insert/update/remove histories with the
    two rejected-operation faults (remove on empty, insert on full), ending in a drain;
  * ``real``: the operation streams that the four model kinds themselves issue during a
    real ``fit`` (a recording subclass of the tree's own Heap is installed at the four
    ``Heap`` seams), checked online by the same oracle.

The oracle is behavioural only: nothing about p/pos/color/last decides a verdict.
"""

import numbers

import numpy as np

from .. import bootstrap as B
from ..common import OutOfDomain, Stop, arr, gen_labels, gen_matrix, iarr, knn_all_zero_accuracy, lib_call
from ..engine import EventLog, Outcome, bump, h64, violation

PID = "C05"
FMAX = B.constants.FLOAT_MAX

RULE = (
    "Each run is one seeded history. synth/wide arms: capacity 1-12 (wide: up to 64), policy, cost alphabet and"
    " op mix are swarm-chosen; ops are put(i,c)=cost[i]=c+insert(i) of an id that is not queued (never queued, or removed"
    " earlier), upd(i,c)=update on a never-queued id or an"
    " improving/equal update of a queued id, pop, plus the fault ops pop-on-empty and insert-on-full; every"
    " history ends with a drain and one extra pop. duo arm: two or three heaps alive at once with interleaved operations."
    " real arm: one fit of a supervised / semi-supervised /"
    " KNN-supervised / unsupervised model on a small world with a recording Heap subclass installed; every op"
    " the model issues is checked online. A history is non-trivial when it has >= 2 successful removals and"
    " >= 1 update of an element that was queued at the time; distinct = distinct (capacity, policy, op kinds,"
    " ids, cost ranks) sequences by 64-bit hash."
)
STATE_MEASURE = "distinct (policy, fill, rank pattern of the costs along the heap array) tuples observed after an operation (read-only peek at Heap.p/last; empty if those attributes disappear)"
REAL = [
    "opfython.core.heap.Heap (current working tree)",
    "real arm: SupervisedOPF/SemiSupervisedOPF/KNNSupervisedOPF/UnsupervisedOPF.fit incl. numba-jitted metrics",
]
STUBBED = ["real arm: the name `Heap` in the four model modules is bound to a pass-through recording subclass of the tree's Heap (behaviour unchanged)", "logging disabled"]
ASSUMPTIONS = [
    "Quantifier as stated in C05: ids < capacity, an id is inserted only while it is not queued (re-insertion of a removed id through insert is exercised; update of a removed id is not), updates of queued ids never worsen the cost, no NaN costs.",
    "A rejected operation is recognised as 'failure reported' when insert returns a falsy value / remove returns False, None or a negative integer.",
    "Exploration by seeded sampling: a clean batch is evidence, not proof.",
]


EXPECTED_PROBES = ['caller_owned_cost_table', 'capacity_set_through_size_property', 'numpy_integer_identifiers', 'policy_set_through_property', 'policy_switched_on_empty_heap', 'several_heaps_interleaved', 'removed_id_inserted_again', 'heap_emptied_by_pop', 'heap_full', 'heap_refilled_after_emptying', 'internal_arrays_inconsistent_while_behaviour_ok', 'pop_with_tie_at_extremum', 'real_fit_', 'real_trace_precondition_breach', 'real_trace_seam_not_engaged', 'real_update_of_queued', 'update_as_insert', 'update_strictly_improves']


def arms(tier):
    if tier == "thorough":
        return [("synth", 20_000_000), ("wide", 2_000_000), ("duo", 4_000_000), ("real", 600_000)]
    return [("synth", 800_000), ("wide", 80_000), ("duo", 150_000), ("real", 30_000)]


def hist_slice(tier):
    return 16 if tier == "thorough" else 1


def gen_duo(rng):
    """Two or three heaps alive at once, their operations interleaved by the scheduler (state
    shared between instances - a class attribute, a mutable default - shows only this way)."""
    heaps = [{"size": rng.randint(1, 8), "policy": rng.choice(("min", "max"))} for _ in range(rng.randint(2, 3))]
    alpha = rng.choice(("tiny", "small", "float", "numpy", "binary"))
    ops = []
    for _ in range(rng.randint(4, 60)):
        hi = rng.randrange(len(heaps))
        r = rng.random()
        if r < 0.45:
            ops.append(["put", hi, rng.randrange(heaps[hi]["size"]), _cost(rng, alpha)])
        elif r < 0.65:
            ops.append(["upd", hi, rng.randrange(heaps[hi]["size"]), _cost(rng, alpha)])
        elif r < 0.95:
            ops.append(["pop", hi])
        else:
            ops.append(["insf", hi, rng.randrange(heaps[hi]["size"])])
    return {"heaps": heaps, "alpha": alpha, "ops": ops}


ALPHABETS = {
    "tiny": [0, 1, 2],
    "small": [0, 1, 2, 3, 4, 5, 6, 7],
    "float": None,
    "extreme": [0, -1.5, 2.5, FMAX, -FMAX, 1e-300, 1.0],
    "infinite": [0, 1.5, float("inf"), float("-inf"), FMAX, -FMAX, 3.0],
    "bigint": [2**53, 2**53 + 1, 2**53 + 2, 2**53 + 3, -(2**53) - 1, -(2**53) - 2, 0, 2**60 + 1],
    "binary": [0.0, 1.0],
    "numpy": "numpy",
    "uint8": "uint8",
}


def _cost(rng, alpha):
    a = ALPHABETS[alpha]
    if a is None:
        return round(rng.uniform(-100, 100), 2)
    if a == "numpy":
        return ["np", float(rng.randint(0, 4))]  # decoded to np.float64 by the executor (what np.maximum hands the heap)
    if a == "uint8":
        return ["u8", rng.randint(0, 200)]  # decoded to np.uint8 (e.g. keys taken from an integer distance table)
    return rng.choice(a)


def _dec(c):
    if isinstance(c, list):
        return np.uint8(c[1]) if c[0] == "u8" else np.float64(c[1])
    return c


def gen_case(rng, arm, tier, k=0):
    if arm == "real":
        return gen_real(rng)
    if arm == "duo":
        return gen_duo(rng)
    size = rng.randint(1, 12) if arm == "synth" else rng.randint(8, 64)
    policy = rng.choice(("min", "max"))
    alpha = rng.choice(("tiny", "small", "float", "extreme", "binary", "tiny", "float", "numpy", "infinite", "bigint", "uint8"))
    length = rng.randint(1, 80 if arm == "synth" else 200)
    w_put = rng.choice((1, 2, 4))
    w_updn = rng.choice((0, 1, 3))
    w_updq = rng.choice((0, 1, 3, 6))
    w_pop = rng.choice((1, 2, 3))
    w_fault = rng.choice((0, 0, 1, 2))
    fill_first = rng.random() < 0.25  # bias towards a full heap so insert-on-full fires
    val = lambda c_: c_[1] if isinstance(c_, list) else c_  # noqa: E731  (works for ["np", v] and ["u8", v])
    better = (lambda a, b: val(a) <= val(b)) if policy == "min" else (lambda a, b: val(a) >= val(b))
    queued = {}
    fresh = list(range(size))
    rng.shuffle(fresh)
    removed = []
    w_reins = rng.choice((0, 0, 1, 2))  # re-insert an id that was removed earlier (insert only)
    ops = []
    for step in range(length):
        choices = []
        if removed and w_reins:
            choices += [("reput", w_reins)]
        if fresh:
            choices += [("put", w_put * (4 if fill_first and step < size else 1)), ("updn", w_updn)]
        if queued:
            choices += [("updq", w_updq)]
        choices += [("pop", w_pop if queued else w_fault)]
        if len(queued) == size:
            choices += [("insf", w_fault * 3)]
        if not queued and ops and rng.random() < 0.08:
            policy = "max" if policy == "min" else "min"
            better = (lambda a, b: val(a) <= val(b)) if policy == "min" else (lambda a, b: val(a) >= val(b))
            ops.append(["setpolicy", policy])
            continue
        if not fresh and not queued and not (removed and w_reins) and ops and ops[-1] == ["pop"]:
            break  # nothing left but repeating the same fault on an idle heap
        tot = sum(w for _, w in choices)
        if tot <= 0:
            choices = [("put", 1)] if fresh else [("pop", 1)]
            tot = 1
        r = rng.random() * tot
        for kind, w in choices:
            r -= w
            if r < 0:
                break
        if kind == "reput":
            i = removed.pop(rng.randrange(len(removed)))
            c = _cost(rng, alpha)
            queued[i] = c
            ops.append(["put", i, c])
        elif kind == "put":
            i = fresh.pop()
            c = _cost(rng, alpha)
            queued[i] = c
            ops.append(["put", i, c])
        elif kind == "updn":
            i = fresh.pop()
            c = _cost(rng, alpha)
            queued[i] = c
            ops.append(["upd", i, c])
        elif kind == "updq":
            i = rng.choice(sorted(queued))
            cur = queued[i]
            c = cur
            for _ in range(3):
                cand = _cost(rng, alpha)
                if better(cand, cur):
                    c = cand
                    break
            queued[i] = c
            ops.append(["upd", i, c])
        elif kind == "pop":
            if queued:
                ext = min(queued.values(), key=val) if policy == "min" else max(queued.values(), key=val)
                # which tied element leaves is the implementation's choice: the generator
                # cannot know it, so it forgets one arbitrary extremal id; the executor
                # re-validates every op against the real model state anyway
                for i in sorted(queued):
                    if val(queued[i]) == val(ext):
                        del queued[i]
                        removed.append(i)
                        break
            ops.append(["pop"])
        else:
            ops.append(["insf", rng.randrange(size)])
    case = {"size": size, "policy": policy, "alpha": alpha, "ops": ops}
    if rng.random() < 0.15:
        case["np_ids"] = True  # identifiers reach the heap as numpy integer scalars (e.g. from an index array)
    if rng.random() < 0.2:
        # the policy is chosen through the public `policy` property after construction
        case["ctor_policy"] = rng.choice(("min", "max"))
    if rng.random() < 0.12:
        case["caller_table"] = True  # the caller installs its own cost list through the `cost` property and writes into it
    if rng.random() < 0.12:
        # the capacity is set through the public `size` property of a larger, still empty heap
        case["ctor_size"] = size + rng.randint(1, 6)
    if rng.random() < 0.15 and ops:
        # fault: an assignment of an unknown policy is refused with an exception; the heap goes on
        for _ in range(rng.randint(1, 2)):
            ops.insert(rng.randrange(len(ops) + 1), ["badpolicy", rng.choice(("median", "", "MIN ", "maximum"))])
    return case


# --------------------------------------------------------------------------- oracle


def is_failure(r):
    return r is False or r is None or (isinstance(r, numbers.Integral) and not isinstance(r, (bool, np.bool_)) and r < 0)


class PQModel:
    """Reference: the set of queued ids with their costs; nothing else."""

    def __init__(self, size, policy):
        self.size = size
        self.policy = policy
        self.queued = {}
        self.ever = set()
        self.inserted = []
        self.returned = []
        self.pops = 0
        self.upd_queued = 0

    def extremal(self):
        vals = self.queued.values()
        return min(vals) if self.policy == "min" else max(vals)

    def no_worse(self, new, old):
        return new <= old if self.policy == "min" else new >= old

    def check_pop(self, r, ctx):
        if not self.queued:
            if not is_failure(r):
                raise Stop(violation("pop-empty-not-failure", "remove on an empty heap returned %r, which is not a failure indication (%s)" % (r, ctx), policy=self.policy))
            return None
        if isinstance(r, (bool, np.bool_)) or not isinstance(r, numbers.Integral):
            raise Stop(violation("pop-result-type", "remove on a non-empty heap returned %r (%s); %d elements are queued (%s)" % (r, type(r).__name__, len(self.queued), ctx), policy=self.policy))
        r = int(r)
        if r not in self.queued:
            kind = "already-returned" if r in self.ever else "never-inserted"
            raise Stop(violation("pop-not-queued", "remove returned %d which is not queued (%s; queued=%s) (%s)" % (r, kind, sorted(self.queued), ctx), policy=self.policy, kind=kind))
        ext = self.extremal()
        if self.queued[r] != ext:
            raise Stop(violation("pop-not-extremal", "remove returned %d with cost %r but the %s queued cost is %r (queued=%s) (%s)" % (r, self.queued[r], self.policy, ext, sorted(self.queued.items()), ctx), policy=self.policy))
        del self.queued[r]
        self.returned.append(r)
        self.pops += 1
        return r

    def check_flags(self, h, ctx):
        e = lib_call("is_empty", h.is_empty)
        f = lib_call("is_full", h.is_full)
        if bool(e) != (len(self.queued) == 0):
            raise Stop(violation("is_empty-wrong", "is_empty() = %r with %d queued elements (%s)" % (e, len(self.queued), ctx), policy=self.policy))
        if bool(f) != (len(self.queued) == self.size):
            raise Stop(violation("is_full-wrong", "is_full() = %r with %d queued elements, capacity %d (%s)" % (f, len(self.queued), self.size, ctx), policy=self.policy))


def rng_free_table_write(op):
    """Deterministic choice (from the op itself): write the cost table before update(i, c)?"""
    return (int(op[1]) * 7 + len(repr(op[2]))) % 3 == 0


def _peek_state(h, model):
    try:
        last = h.last
        p = h.p[: last + 1]
        costs = [h.cost[i] for i in p]
        order = sorted(set(costs))
        rank = {c: k for k, c in enumerate(order)}
        return h64((model.policy, last + 1, tuple(rank[c] for c in costs)))
    except Exception:  # noqa: BLE001 - internals are not part of the contract
        return None


def _internal_ok(h, model):
    try:
        last = h.last
        if last + 1 != len(model.queued):
            return False
        seen = set()
        for k in range(last + 1):
            e = h.p[k]
            if h.pos[e] != k or e in seen:
                return False
            seen.add(e)
        return seen == set(model.queued)
    except Exception:  # noqa: BLE001
        return True


def run_synth(case, out):
    size, policy = case["size"], case["policy"]
    Heap = B.heap_mod.Heap
    # the policy string is built at run time (as it would be when it comes from a file or the
    # command line): equal to "min"/"max" but not the interned literal
    policy = "".join(list(policy))
    ctor_size = case.get("ctor_size", size)
    if case.get("ctor_policy"):
        h = lib_call("Heap()", Heap, ctor_size, "".join(list(case["ctor_policy"])))
        h.policy = policy
        bump(out.probes, "policy_set_through_property")
    else:
        h = lib_call("Heap()", Heap, ctor_size, policy)
    if ctor_size != size:
        h.size = size
        bump(out.probes, "capacity_set_through_size_property")
    table = None
    if case.get("caller_table"):
        table = [FMAX for _ in range(max(size, ctor_size))]
        h.cost = table  # from now on the caller writes keys into its own list
        bump(out.probes, "caller_owned_cost_table")
    m = PQModel(size, policy)
    log = EventLog()
    states = set()
    ident = (lambda i_: np.int64(i_)) if case.get("np_ids") else (lambda i_: i_)
    if case.get("np_ids"):
        bump(out.probes, "numpy_integer_identifiers")
    norm = []
    refill_pending = False
    for n, op in enumerate(case["ops"]):
        kind = op[0]
        got = None
        ctx = "op #%d %s" % (n, op)
        if kind == "put":
            i, c = op[1], _dec(op[2])
            if i in m.queued or not (0 <= i < size):
                continue
            if i in m.ever:
                bump(out.probes, "removed_id_inserted_again")
            if table is not None:
                table[i] = c
            else:
                h.cost[i] = c
            r = lib_call("insert", h.insert, ident(i))
            if not r:
                raise Stop(violation("insert-reported-failure", "insert(%d) into a heap holding %d of %d returned %r (%s)" % (i, len(m.queued), size, r, ctx), policy=policy, reinsert=i in m.ever))
            m.queued[i] = c
            m.ever.add(i)
            m.inserted.append(i)
            norm.append(("put", i, c))
            log.add("put", i, c)
        elif kind == "upd":
            i, c = op[1], _dec(op[2])
            if not (0 <= i < size):
                continue
            if i in m.queued:
                if not m.no_worse(c, m.queued[i]):
                    continue
                m.upd_queued += 1
                cur = m.queued[i]
                if c != cur:
                    bump(out.probes, "update_strictly_improves")
                lib_call("update", h.update, ident(i), c)
                m.queued[i] = c
                norm.append(("updq", i, c))
            elif i not in m.ever:
                if rng_free_table_write(op):
                    (table if table is not None else h.cost)[i] = c  # the caller writes the key first and then queues through update
                lib_call("update", h.update, ident(i), c)
                m.queued[i] = c
                m.ever.add(i)
                m.inserted.append(i)
                bump(out.probes, "update_as_insert")
                norm.append(("updn", i, c))
            else:
                continue
            log.add("upd", i, c)
        elif kind == "pop":
            if not m.queued:
                bump(out.faults, "remove_on_empty")
            else:
                ext = m.extremal()
                if sum(1 for v in m.queued.values() if v == ext) > 1:
                    bump(out.probes, "pop_with_tie_at_extremum")
            r = lib_call("remove", h.remove)
            got = m.check_pop(r, ctx)
            norm.append(("pop",))
            log.add("pop", got)
        elif kind == "badpolicy":
            try:
                h.policy = op[1]
                refused = False
            except Exception:  # noqa: BLE001 - the refusal
                refused = True
            if not refused:
                continue  # the value is accepted by this tree: not the fault we schedule, no verdict
            bump(out.faults, "policy_assignment_refused")
            norm.append(("badpolicy", 0, 0))
            log.add("badpolicy")
        elif kind == "setpolicy":
            # an empty heap is re-used under the other policy
            if m.queued or op[1] not in ("min", "max") or op[1] == m.policy:
                continue
            h.policy = "".join(list(op[1]))
            m.policy = op[1]
            policy = op[1]
            bump(out.probes, "policy_switched_on_empty_heap")
            norm.append(("setpolicy", op[1], 0))
            log.add("setpolicy", op[1])
        elif kind == "insf":
            if len(m.queued) != size:
                continue
            j = op[1] % size
            bump(out.faults, "insert_on_full")
            r = lib_call("insert", h.insert, j)
            if r:
                raise Stop(violation("insert-full-not-failure", "insert(%d) on a full heap (capacity %d) returned %r (%s)" % (j, size, r, ctx), policy=policy))
            norm.append(("insf", j))
            log.add("insf", j)
        else:
            continue
        out.steps += 1
        m.check_flags(h, ctx)
        if len(m.queued) == size:
            bump(out.probes, "heap_full")
        if not m.queued and kind == "pop" and got is not None:
            bump(out.probes, "heap_emptied_by_pop")
            refill_pending = True
        elif refill_pending and m.queued:
            bump(out.probes, "heap_refilled_after_emptying")
            refill_pending = False
        s = _peek_state(h, m)
        if s is not None:
            states.add(s)
    if not _internal_ok(h, m):
        bump(out.probes, "internal_arrays_inconsistent_while_behaviour_ok")
    # drain
    guard = len(m.queued) + 1
    while m.queued and guard > 0:
        guard -= 1
        r = lib_call("remove", h.remove)
        got = m.check_pop(r, "drain")
        log.add("drain", got)
        out.steps += 1
        m.check_flags(h, "drain")
    r = lib_call("remove", h.remove)
    bump(out.faults, "remove_on_empty")
    m.check_pop(r, "pop after drain")
    m.check_flags(h, "after drain")
    out.steps += 1
    # history check: exactly once
    if sorted(m.returned) != sorted(m.inserted):
        raise Stop(violation("exactly-once", "insertions %s but removals returned %s" % (sorted(m.inserted), sorted(m.returned)), policy=policy))
    out.digest = log.hexdigest()
    order = sorted(c for c in {float(o[2]) for o in norm if len(o) > 2 and o[0] not in ("setpolicy", "badpolicy")})
    rank = {c: k for k, c in enumerate(order)}
    out.hist = h64((size, case["policy"], case.get("ctor_policy"), tuple((o[0], o[1] if len(o) > 1 else -1, rank[float(o[2])] if len(o) > 2 and o[0] not in ("setpolicy", "badpolicy") else -1) for o in norm)))
    out.nontrivial = m.pops >= 2 and m.upd_queued >= 1
    out.states = states


def run_duo(case, out):
    Heap = B.heap_mod.Heap
    hs = [lib_call("Heap()", Heap, h["size"], "".join(list(h["policy"]))) for h in case["heaps"]]
    ms = [PQModel(h["size"], h["policy"]) for h in case["heaps"]]
    log = EventLog()
    norm = []
    for n, op in enumerate(case["ops"]):
        kind, hi = op[0], op[1] % len(hs)
        h, m = hs[hi], ms[hi]
        ctx = "op #%d %s on heap %d" % (n, op, hi)
        if kind == "put":
            i, c = op[2] % m.size, _dec(op[3])
            if i in m.queued:
                continue
            h.cost[i] = c
            r = lib_call("insert", h.insert, i)
            if not r:
                raise Stop(violation("insert-reported-failure", "insert(%d) into a heap holding %d of %d returned %r (%s)" % (i, len(m.queued), m.size, r, ctx), policy=m.policy, several_heaps=True))
            m.queued[i] = c
            m.ever.add(i)
            m.inserted.append(i)
        elif kind == "upd":
            i, c = op[2] % m.size, _dec(op[3])
            if i in m.queued:
                if not m.no_worse(c, m.queued[i]):
                    continue
                m.upd_queued += 1
            elif i in m.ever:
                continue
            else:
                m.ever.add(i)
                m.inserted.append(i)
            lib_call("update", h.update, i, c)
            m.queued[i] = c
        elif kind == "pop":
            if not m.queued:
                bump(out.faults, "remove_on_empty")
            r = lib_call("remove", h.remove)
            m.check_pop(r, ctx)
        elif kind == "insf":
            if len(m.queued) != m.size:
                continue
            bump(out.faults, "insert_on_full")
            r = lib_call("insert", h.insert, op[2] % m.size)
            if r:
                raise Stop(violation("insert-full-not-failure", "insert on a full heap returned %r (%s)" % (r, ctx), policy=m.policy))
        else:
            continue
        out.steps += 1
        norm.append((kind, hi, op[2] if len(op) > 2 else -1))
        log.add(kind, hi, op[2:] if len(op) > 2 else ())
        # every heap - not only the one just used - must still report its own state
        for hj, mj in zip(hs, ms):
            mj.check_flags(hj, ctx)
    for hi, (h, m) in enumerate(zip(hs, ms)):
        guard = len(m.queued) + 1
        while m.queued and guard > 0:
            guard -= 1
            m.check_pop(lib_call("remove", h.remove), "drain of heap %d" % hi)
            out.steps += 1
        m.check_pop(lib_call("remove", h.remove), "pop after drain of heap %d" % hi)
        if sorted(m.returned) != sorted(m.inserted):
            raise Stop(violation("exactly-once", "heap %d: insertions %s but removals returned %s" % (hi, sorted(m.inserted), sorted(m.returned)), policy=m.policy))
    bump(out.probes, "several_heaps_interleaved")
    out.digest = log.hexdigest()
    out.hist = h64((tuple((h["size"], h["policy"]) for h in case["heaps"]), tuple(norm)))
    out.nontrivial = sum(m.pops for m in ms) >= 2 and sum(m.upd_queued for m in ms) >= 1
    out.states = set()


# --------------------------------------------------------------------------- real traces

KINDS = ("supervised", "semi", "knn", "unsup")


def gen_real(rng):
    kind = rng.choice(KINDS)
    style = rng.choice(("lattice", "lattice", "dups", "generic", "positive"))
    metric = rng.choice(("euclidean", "manhattan", "log_squared_euclidean", "chebyshev", "squared_euclidean"))
    d = rng.randint(1, 3)
    n = rng.randint(3, 12)
    X = gen_matrix(rng, n, d, style)
    Y = gen_labels(rng, n, rng.randint(2, 3))
    case = {"kind": kind, "metric": metric, "style": style, "X": X, "Y": Y, "ops": []}
    if kind == "semi":
        nu = rng.randint(0, 5)
        case["XU"] = gen_matrix(rng, nu, d, style)
    if kind == "knn":
        nv = rng.randint(max(Y) + 1, 6)
        case["XV"] = gen_matrix(rng, nv, d, style)
        case["YV"] = gen_labels(rng, nv, max(Y) + 1)
        case["max_k"] = rng.randint(1, min(4, n - 1))
    if kind == "unsup":
        case["max_k"] = rng.randint(1, min(4, n - 1))
        case["min_k"] = rng.randint(1, case["max_k"])
    return case


class _Trace:
    """Online oracle for one heap instance created by model code."""

    def __init__(self, size, policy, out, log, states):
        self.m = PQModel(size, policy)
        self.out = out
        self.log = log
        self.states = states
        self.cost = {}
        self.breach = False  # model code itself left the property's quantifier
        self.viol = None
        self.depth = 0
        self.norm = []

    def fail(self, stop):
        if self.viol is None and not self.breach:
            self.viol = stop.violation


def make_recording_heap(Heap, traces, out, log, states):
    class WatchedCost(list):
        __slots__ = ("_t",)

        def __setitem__(self, i, v):
            list.__setitem__(self, i, v)
            t = self._t
            if t is not None and t.depth == 0 and isinstance(i, numbers.Integral):
                i = int(i)
                if i in t.m.queued and v != t.m.queued[i]:
                    # direct write to a queued key: outside C05's quantifier
                    t.breach = True
                    bump(out.probes, "real_trace_precondition_breach")
                t.cost[i] = v

    class RecordingHeap(Heap):
        def __init__(self, size=1, policy="min"):
            self._t = None
            Heap.__init__(self, size, policy)
            t = _Trace(size, policy, out, log, states)
            w = WatchedCost(self.cost)
            w._t = t
            self.cost = w
            self._t = t
            traces.append(t)
            bump(out.seams, "recording_heap_instances")

        def _after(self, ctx):
            t = self._t
            if t.breach or t.viol is not None:
                return
            try:
                t.depth += 1
                try:
                    t.m.check_flags(self, ctx)
                finally:
                    t.depth -= 1
            except Stop as s:
                t.fail(s)
            s = _peek_state(self, t.m)
            if s is not None:
                t.states.add(s)

        def insert(self, p):
            t = self._t
            if t is None or t.depth > 0:
                return Heap.insert(self, p)
            t.depth += 1
            try:
                r = Heap.insert(self, p)
            finally:
                t.depth -= 1
            t.out.steps += 1
            if t.breach or t.viol is not None:
                return r
            p = int(p)
            if p in t.m.ever:
                t.breach = True
                bump(out.probes, "real_trace_precondition_breach")
                return r
            if len(t.m.queued) == t.m.size:
                if r:
                    t.fail(Stop(violation("insert-full-not-failure", "model code: insert(%d) on a full heap returned %r" % (p, r), policy=t.m.policy)))
                return r
            if not r:
                t.fail(Stop(violation("insert-reported-failure", "model code: insert(%d) returned %r with %d of %d queued" % (p, r, len(t.m.queued), t.m.size), policy=t.m.policy)))
                return r
            c = list.__getitem__(self.cost, p)
            if c != c:
                t.breach = True  # NaN key produced by model code: outside C05's quantifier
                bump(out.probes, "real_trace_precondition_breach")
                return r
            t.m.queued[p] = c
            t.m.ever.add(p)
            t.m.inserted.append(p)
            t.norm.append(("put", p, c))
            t.log.add("put", p, c)
            self._after("model insert(%d)" % p)
            return r

        def update(self, p, cost):
            t = self._t
            if t is None or t.depth > 0:
                return Heap.update(self, p, cost)
            t.depth += 1
            try:
                r = Heap.update(self, p, cost)
            finally:
                t.depth -= 1
            t.out.steps += 1
            if t.breach or t.viol is not None:
                return r
            p = int(p)
            if cost != cost:
                t.breach = True
                bump(out.probes, "real_trace_precondition_breach")
                return r
            if p in t.m.queued:
                if not t.m.no_worse(cost, t.m.queued[p]):
                    t.breach = True
                    bump(out.probes, "real_trace_precondition_breach")
                    return r
                t.m.upd_queued += 1
                bump(out.probes, "real_update_of_queued")
                t.m.queued[p] = cost
                t.norm.append(("updq", p, cost))
            elif p not in t.m.ever:
                t.m.queued[p] = cost
                t.m.ever.add(p)
                t.m.inserted.append(p)
                bump(out.probes, "update_as_insert")
                t.norm.append(("updn", p, cost))
            else:
                t.breach = True
                bump(out.probes, "real_trace_precondition_breach")
                return r
            t.log.add("upd", p, cost)
            self._after("model update(%d, %r)" % (p, cost))
            return r

        def remove(self):
            t = self._t
            if t is None or t.depth > 0:
                return Heap.remove(self)
            if not t.breach and t.viol is None and t.m.queued:
                ext = t.m.extremal()
                if sum(1 for v in t.m.queued.values() if v == ext) > 1:
                    bump(out.probes, "pop_with_tie_at_extremum")
            t.depth += 1
            try:
                r = Heap.remove(self)
            finally:
                t.depth -= 1
            t.out.steps += 1
            if t.breach or t.viol is not None:
                return r
            try:
                got = t.m.check_pop(r, "model remove()")
            except Stop as s:
                t.fail(s)
                return r
            t.norm.append(("pop",))
            t.log.add("pop", got)
            self._after("model remove()")
            return r

    return RecordingHeap


def run_real(case, out):
    kind = case["kind"]
    log = EventLog()
    states = set()
    traces = []
    mods = (B.supervised_mod, B.semi_mod, B.knn_mod, B.unsup_mod)
    saved = [m.Heap for m in mods]
    Rec = make_recording_heap(B.heap_mod.Heap, traces, out, log, states)
    X, Y = arr(case["X"]), iarr(case["Y"])
    if len(set(case["Y"])) < 2 or len(case["X"]) < 2:
        raise OutOfDomain()
    try:
        for m in mods:
            m.Heap = Rec
        if kind == "supervised":
            opf = B.supervised_mod.SupervisedOPF(distance=case["metric"])
            lib_call("SupervisedOPF.fit", opf.fit, X, Y)
        elif kind == "semi":
            opf = B.semi_mod.SemiSupervisedOPF(distance=case["metric"])
            XU = arr(case["XU"]).reshape(len(case["XU"]), X.shape[1])
            lib_call("SemiSupervisedOPF.fit", opf.fit, X, Y, XU)
        elif kind == "knn":
            k = min(case["max_k"], len(case["X"]) - 1)
            if k < 1 or len(case["XV"]) < 1:
                raise OutOfDomain()
            opf = B.knn_mod.KNNSupervisedOPF(max_k=k, distance=case["metric"])
            if set(case["YV"]) != set(case["Y"]):
                raise OutOfDomain()
            lib_call("KNNSupervisedOPF.fit", opf.fit, X, Y, arr(case["XV"]), iarr(case["YV"]), ood=knn_all_zero_accuracy)
        else:
            mk = min(case["max_k"], len(case["X"]) - 1)
            if mk < 1:
                raise OutOfDomain()
            opf = B.unsup_mod.UnsupervisedOPF(min_k=min(case["min_k"], mk), max_k=mk, distance=case["metric"])
            lib_call("UnsupervisedOPF.fit", opf.fit, X, Y)
    finally:
        for m, s in zip(mods, saved):
            m.Heap = s
    if not traces:
        bump(out.probes, "real_trace_seam_not_engaged")
    pops = upd = 0
    norm_all = []
    for t in traces:
        if t.viol is not None:
            v = dict(t.viol)
            v["facts"] = dict(v["facts"], workload="real:" + kind)
            raise Stop(v)
        if t.breach:
            continue
        # the model code drains every heap it creates (while not h.is_empty())
        if t.m.queued:
            raise Stop(violation("exactly-once", "model code stopped with ids %s still queued (is_empty lied or elements were lost)" % sorted(t.m.queued), policy=t.m.policy, workload="real:" + kind))
        if sorted(t.m.returned) != sorted(t.m.inserted):
            raise Stop(violation("exactly-once", "insertions %s but removals returned %s" % (sorted(t.m.inserted), sorted(t.m.returned)), policy=t.m.policy, workload="real:" + kind))
        pops += t.m.pops
        upd += t.m.upd_queued
        order = sorted({o[2] for o in t.norm if len(o) > 2})
        rank = {c: k for k, c in enumerate(order)}
        norm_all.append((t.m.size, t.m.policy, tuple((o[0], o[1] if len(o) > 1 else -1, rank[o[2]] if len(o) > 2 else -1) for o in t.norm)))
    out.digest = log.hexdigest()
    out.hist = h64(("real", kind, tuple(norm_all)))
    out.nontrivial = pops >= 2 and upd >= 1
    out.states = states
    bump(out.probes, "real_fit_" + kind)


def run_case(case):
    out = Outcome()
    try:
        if case.get("arm") == "real" or "kind" in case:
            run_real(case, out)
        elif "heaps" in case:
            run_duo(case, out)
        else:
            run_synth(case, out)
    except Stop as s:
        out.violation = s.violation
    except OutOfDomain:
        out.ood = 1
    return out


# --------------------------------------------------------------------------- shrinking / samples


def shrink(case):
    if "kind" in case:
        # real arm: drop rows
        n = len(case["X"])
        for i in range(n):
            c = dict(case)
            c["X"] = case["X"][:i] + case["X"][i + 1 :]
            c["Y"] = case["Y"][:i] + case["Y"][i + 1 :]
            if len(c["X"]) >= 2:
                yield c
        for key, lab in (("XU", None), ("XV", "YV")):
            for i in range(len(case.get(key, []))):
                c = dict(case)
                c[key] = case[key][:i] + case[key][i + 1 :]
                if lab:
                    c[lab] = case[lab][:i] + case[lab][i + 1 :]
                yield c
        for key in ("max_k", "min_k"):
            if case.get(key, 1) > 1:
                c = dict(case)
                c[key] = case[key] - 1
                yield c
        return
    if "heaps" in case:
        if len(case["heaps"]) > 2:
            for drop in range(len(case["heaps"])):
                c = dict(case)
                c["heaps"] = case["heaps"][:drop] + case["heaps"][drop + 1 :]
                c["ops"] = [[o[0], o[1] - (1 if o[1] > drop else 0)] + o[2:] for o in case["ops"] if o[1] != drop]
                yield c
        return
    ops = case["ops"]
    if any(o[0] in ("setpolicy", "badpolicy") for o in ops):
        return
    if case.get("ctor_policy"):
        c = dict(case)
        c.pop("ctor_policy")
        yield c
    used = sorted({o[1] for o in ops if len(o) > 1})
    # smaller capacity (renumber ids densely)
    if used and (len(used) < case["size"] or used != list(range(len(used)))):
        ren = {i: k for k, i in enumerate(used)}
        c = dict(case)
        c["size"] = max(1, len(used))
        c["ops"] = [[o[0], ren[o[1]]] + o[2:] if len(o) > 1 else o for o in ops]
        yield c
    # simpler costs: replace by small integers preserving order
    if any(isinstance(o[2], list) for o in ops if len(o) > 2):
        # numpy-typed costs: try plain floats of the same values
        c = dict(case)
        c["ops"] = [[o[0], o[1], o[2][1] if isinstance(o[2], list) else o[2]] if len(o) > 2 else o for o in ops]
        yield c
        return
    costs = sorted({o[2] for o in ops if len(o) > 2})
    if costs and costs != list(range(len(costs))):
        rk = {c_: k for k, c_ in enumerate(costs)}
        c = dict(case)
        c["ops"] = [[o[0], o[1], rk[o[2]]] if len(o) > 2 else o for o in ops]
        yield c
    # merge cost values (more ties = simpler)
    for k in range(len(costs) - 1):
        c = dict(case)
        c["ops"] = [[o[0], o[1], costs[k] if o[2] == costs[k + 1] else o[2]] if len(o) > 2 else o for o in ops]
        yield c


def sample_repr(case):
    return case
