"""C10 - a pre-computed distance file is equivalent to computing on the fly (DESIGN.md 4.4).

The distance file is the only channel between ``pre_compute_distance`` and the model that
later reads it (durable state; the reader is a freshly constructed object or, in the restart
arm, a fresh interpreter).  Paths are reused and overwritten while models that already read
them stay alive.  Oracle: an on-the-fly twin of every file-backed model (bitwise equality of
costs, predecessors, labels, clusters, conquest order, predictions), the in-memory matrix for
the file content, and the metric itself for ``get_distances``.
"""

import os
import shutil
import tempfile

import numpy as np

from .. import bootstrap as B
from ..common import (
    lay_out, ALL_METRICS, ASYMMETRIC, REAL_DOMAIN, OutOfDomain, Stop, abits, arr, dig, first_diff, gen_labels, gen_matrix,
    iarr, lib_call, metric_class, style_for_metric, subgraph_state,
)
from ..engine import EventLog, Outcome, SimTimeout, bump, h64, library_site, raised_violation, violation

PID = "C10"
RULE = (
    "Each run builds one data set D (4-16 rows, d 1-4, style inside the metric's domain, >= 2 classes) with a seeded"
    " split into train / unlabeled / test index sets laid out as the API requires, and executes a seeded history of"
    " 5-16 operations over two reusable paths (.txt or .csv): pre_compute_distance(D, path, metric) (also over a path"
    " that a live model already read), construct a file-backed model (supervised / semi-supervised / unsupervised) plus"
    " its on-the-fly twin, fit both (index arrays vs features), predict random batches of test rows, get_distances with"
    " and without normalisation; restart arm: the file-backed model is constructed, fitted and used in a fresh"
    " interpreter. Non-trivial: the training index array is not 0..n-1 in order and at least one prediction on test"
    " rows was compared. distinct = distinct (kind, metric, ext, index arrays, op sequence) by 64-bit hash."
)
STATE_MEASURE = "distinct (model kind, metric, file extension, index-array-is-identity?, file overwritten since construction?, best_k) tuples at a compared fit or predict"
REAL = ["math.general.pre_compute_distance (np.savetxt), OPF._read_distances / stream.loader (np.loadtxt), SupervisedOPF / SemiSupervisedOPF / UnsupervisedOPF fit+predict, OPF.get_distances, KNNSubgraph, numba-jitted metrics - current working tree", "real files in a per-run scratch directory"]
STUBBED = ["logging disabled; nothing else (the twin is the same library computing on the fly)"]
ASSUMPTIONS = [
    "Index arrays are laid out as the API requires (semi-supervised: D = [labeled; unlabeled; rest], I_train a permutation of the labeled rows).",
    "A call that raises the same exception type for the file-backed model and its twin gives no verdict (degenerate worlds).",
    "The normalised get_distances matrix is compared with (d-min)/(max-min) up to 1e-12 relative (NaN = NaN); everything else bit-for-bit.",
]

KINDS = ("supervised", "semi", "unsup")


EXPECTED_PROBES = ['caller_reused_its_index_array_after_fit', 'get_distances_after_caller_modified_an_earlier_result', 'unsupervised_fit_without_labels', 'precomputed_flag_switched_on_a_file_backed_model', 'refit_with_other_index_set', 'non_contiguous_data_set', 'non_float64_data_set', 'asymmetric_metric', 'call_raises_consistently', 'file_overwritten_after_a_model_read_it', 'fit_after_file_overwritten', 'integer_valued_metric', 'non_identity_index_array', 'path_overwritten', 'unsupervised_best_k_gt_1']

SLOW_ARMS = ("restart",)


def arms(tier):
    if tier == "thorough":
        return [("mixed", 1_600_000), ("restart", 12_000)]
    return [("mixed", 60_000), ("restart", 400)]


def hist_slice(tier):
    return 1


def gen_case(rng, arm, tier, k=0):
    metric = ALL_METRICS[k % 47] if rng.random() < 0.5 else rng.choice(ALL_METRICS)
    style = style_for_metric(rng, metric, allow_zeros=True)
    d = rng.randint(1, 4)
    N = rng.randint(4, 16)
    K = rng.randint(2, 3)
    kind = rng.choice(KINDS)
    D = gen_matrix(rng, N, d, style)
    n_lab = rng.randint(max(2, K), max(max(2, K), N - 1))
    if kind == "semi":
        # D = [labeled; unlabeled; rest]
        n_unl = rng.randint(0, N - n_lab)
        unl = list(range(n_lab, n_lab + n_unl))  # the API numbers unlabeled nodes n_lab, n_lab+1, ...
        others = [i for i in range(N) if i not in unl]
        if rng.random() < 0.5:
            rng.shuffle(others)  # labelled rows may be stored anywhere outside that block
            train = others[:n_lab]
        else:
            train = list(range(n_lab))
            rng.shuffle(train)
        test = [i for i in others if i not in train] or train[:1]
    else:
        idx = list(range(N))
        if rng.random() < 0.85:
            rng.shuffle(idx)
        train = idx[:n_lab]
        unl = []
        test = idx[n_lab:] or idx[:1]
        if rng.random() < 0.2:
            test = test + [rng.choice(train)]
    Y = [0] * N
    ys = gen_labels(rng, len(train), K)
    for t, y in zip(train, ys):
        Y[t] = y
    for t in range(N):
        if t not in train:
            Y[t] = rng.randrange(K)
    ext = rng.choice(("txt", "csv"))
    dtype = "float64"
    if rng.random() < 0.12:
        dtype = rng.choice(B.DTYPES)
        metric = rng.choice(B.DTYPE_METRICS)
        D = [[float(int(abs(v)) % 4) for v in r] for r in D]
    mk = rng.randint(1, max(1, min(4 if rng.random() < 0.7 else 11, len(train) - 1)))
    case = {"kind": kind, "metric": metric, "style": style, "ext": ext, "D": D, "Y": Y, "train": train, "unl": unl, "test": test, "max_k": mk, "min_k": rng.randint(1, mk), "dtype": dtype, "layout": rng.choice(("c", "c", "c", "f", "strided", "cols")), "no_labels": kind == "unsup" and rng.random() < 0.4}
    # an alternative selection/order of the labelled rows for re-fits of the same model objects
    if kind == "semi":
        tr2 = list(train)
        rng.shuffle(tr2)
        alt = {"train": tr2, "unl": list(unl), "test": list(test)}
    else:
        idx2 = list(range(N))
        rng.shuffle(idx2)
        n2 = rng.randint(max(2, K), max(max(2, K), N - 1))
        alt = {"train": idx2[:n2], "unl": [], "test": idx2[n2:] or idx2[:1]}
    case["alt"] = alt
    metric2 = rng.choice(ALL_METRICS if style not in ("generic",) else sorted(REAL_DOMAIN))
    if dtype != "float64":
        metric2 = rng.choice(B.DTYPE_METRICS)
    ops = [["pre", 0, metric]]
    models = 0
    files = {0}
    for _ in range(rng.randint(4, 15)):
        r = rng.random()
        if models == 0 or r < 0.15:
            ops.append(["new", rng.choice(sorted(files))])
            models += 1
        elif r < 0.40:
            ops.append(["fit", rng.randrange(models)] + (["alt"] if rng.random() < 0.3 else []))
        elif r < 0.70:
            ops.append(["predict", rng.randrange(models), [rng.randrange(len(test)) for _ in range(rng.randint(1, 6))]])
        elif r < 0.78:
            ops.append(["getdist", rng.randrange(models), rng.random() < 0.5])
            if rng.random() < 0.5:
                ops.append(["getdist", ops[-1][1], rng.random() < 0.5])
        elif r < 0.82:
            # the public flag is switched: the same object must then compute on the fly (and back)
            ops.append(["flag", rng.randrange(models)])
        elif r < 0.92:
            f = rng.randrange(2)
            ops.append(["pre", f, rng.choice((metric, metric2))])
            files.add(f)
        else:
            ops.append(["fit", rng.randrange(models)])
            ops.append(["predict", rng.randrange(models), [rng.randrange(len(test)) for _ in range(rng.randint(1, 6))]])
    if arm == "restart":
        ops.append(["restart", 0])
    case["ops"] = ops
    return case


def make(kind, metric, case, path=None):
    if kind == "supervised":
        return B.supervised_mod.SupervisedOPF(distance=metric, pre_computed_distance=path)
    if kind == "semi":
        return B.semi_mod.SemiSupervisedOPF(distance=metric, pre_computed_distance=path)
    n = len(case["train"])
    mk = max(1, min(case["max_k"], n - 1))
    return B.unsup_mod.UnsupervisedOPF(min_k=max(1, min(case["min_k"], mk)), max_k=mk, distance=metric, pre_computed_distance=path)


def attempt(fn, *a):
    try:
        return True, fn(*a), None
    except (Exception, SimTimeout) as exc:  # noqa: BLE001
        if library_site(exc, B.REPO_PKG) is None:
            raise
        return False, None, exc


def valid(case):
    N = len(case["D"])
    tr, un, te = case["train"], case["unl"], case["test"]
    if N < 2 or len(tr) < 2 or not te:
        return False
    if len(set(tr)) != len(tr) or any(not (0 <= i < N) for i in tr + un + te):
        return False
    ys = [case["Y"][t] for t in tr]
    if len(set(ys)) < 2 and case["kind"] != "unsup":
        return False
    if sorted(set(ys)) != list(range(max(ys) + 1)):
        return False
    if case["kind"] == "semi":
        if un != list(range(len(tr), len(tr) + len(un))) or set(tr) & set(un):
            return False
    if case["kind"] == "unsup" and len(tr) < 3:
        return False
    return True


def run_case(case):
    out = Outcome()
    scratch = tempfile.mkdtemp(prefix="verif-c10-", dir="/dev/shm" if os.path.isdir("/dev/shm") else None)
    try:
        if not valid(case):
            raise OutOfDomain()
        kind, ext = case["kind"], case["ext"]
        D = arr(case["D"]).reshape(len(case["D"]), -1)
        if case.get("dtype", "float64") != "float64":
            D = D.astype(case["dtype"])
            bump(out.probes, "non_float64_data_set")
        elif case.get("layout", "c") != "c":
            D = lay_out(D, case["layout"])[1]
            bump(out.probes, "non_contiguous_data_set")
        Y = iarr(case["Y"])
        tr, un, te = case["train"], case["unl"], case["test"]
        Xtr, Ytr, Itr = D[tr], Y[tr], iarr(tr)
        tr_all = list(tr) + (list(un) if case["kind"] == "semi" else [])  # node i of a fitted model is this row of D
        Xun = D[un] if un else np.zeros((0, D.shape[1]), dtype=D.dtype)
        log = EventLog()
        paths = [os.path.join(scratch, "dist%d.%s" % (i, ext)) for i in range(2)]
        file_metric = [None, None]
        file_gen = [0, 0]
        models = []  # dict(A, B, metric, f, gen, fitted)
        facts = dict(kind=kind, ext=ext)
        norm = []
        states = set()
        identity = tr == list(range(len(tr)))
        compared_pred = False
        alt_ok = False
        if case.get("alt"):
            probe_case = dict(case, train=case["alt"]["train"], unl=case["alt"]["unl"], test=case["alt"]["test"])
            alt_ok = valid(probe_case)

        def in_memory(metric):
            fn = B.distance.DISTANCES[metric]
            N = len(D)
            M = np.zeros((N, N))
            for i in range(N):
                for j in range(N):
                    M[i, j] = fn(D[i].copy(), D[j].copy())
            return M

        for k, op in enumerate(case["ops"]):
            kop = op[0]
            if kop == "pre":
                out.steps += 1
                f, metric = op[1] % 2, op[2]
                if file_metric[f] is not None:
                    bump(out.probes, "path_overwritten")
                    if any(md["f"] == f for md in models):
                        bump(out.probes, "file_overwritten_after_a_model_read_it")
                ra = attempt(B.general.pre_compute_distance, D, paths[f], metric)
                if not ra[0]:
                    # the metric may be undefined on this data (e.g. a zero denominator): only a
                    # disagreement with evaluating the same metric in memory is C10's business
                    rb = attempt(in_memory, metric)
                    consistent(ra, rb, "pre_compute_distance", k, metric, facts, out)
                    file_metric[f] = None  # content unspecified after a failed write
                    continue
                file_metric[f] = metric
                file_gen[f] += 1
                log.add("pre", f, metric)
                norm.append(("pre", f, metric))
            elif kop == "new":
                f = op[1] % 2
                if file_metric[f] is None:
                    continue
                out.steps += 1
                metric = file_metric[f]
                A = lib_call("construct file-backed model (.%s)" % ext, make, kind, metric, case, paths[f])
                Bm = make(kind, metric, case)
                want = in_memory(metric)
                got = A.pre_distances
                if got is None or not isinstance(got, np.ndarray) or got.shape != want.shape or abits(got) != abits(want):
                    where = ""
                    if isinstance(got, np.ndarray) and got.shape == want.shape:
                        ij = np.argwhere(~((got == want) | (np.isnan(got) & np.isnan(want))))
                        if len(ij):
                            i, j = ij[0]
                            where = ": entry [%d][%d] is %r, metric gives %r" % (i, j, float(got[i, j]), float(want[i, j]))
                    raise Stop(violation("file-matrix-differs", "the matrix read back from the .%s file written by pre_compute_distance(%s) differs from the metric evaluated in memory%s (shape %s vs %s)" % (ext, metric, where, getattr(got, "shape", None), want.shape), metric_class=metric_class(metric), **facts))
                models.append(dict(A=A, B=Bm, metric=metric, f=f, gen=file_gen[f], fitted=False, sel=(tr, un, te)))
                if metric in ASYMMETRIC:
                    bump(out.probes, "asymmetric_metric")
                if metric == "hamming":
                    bump(out.probes, "integer_valued_metric")
                log.add("new", f, metric)
                norm.append(("new", f))
            elif kop == "flag" and models:
                md = models[op[1] % len(models)]
                out.steps += 1
                md["off"] = not md.get("off", False)
                md["A"].pre_computed_distance = not md["off"]
                md["fitted"] = False
                bump(out.probes, "precomputed_flag_switched_on_a_file_backed_model")
                log.add("flag", md["off"])
                norm.append(("flag", md["off"]))
            elif kop in ("fit", "predict", "getdist") and models:
                md = models[op[1] % len(models)]
                A, Bm, metric = md["A"], md["B"], md["metric"]
                stale = file_gen[md["f"]] != md["gen"]
                if kop == "fit":
                    out.steps += 1
                    if len(op) > 2 and op[2] == "alt" and alt_ok:
                        md["sel"] = (case["alt"]["train"], case["alt"]["unl"], case["alt"]["test"])
                        bump(out.probes, "refit_with_other_index_set")
                    elif len(op) <= 2:
                        md["sel"] = (tr, un, te)
                    s_tr, s_un, s_te = md["sel"]
                    Xtr, Ytr, Itr = D[s_tr], Y[s_tr], iarr(s_tr)
                    Xun = D[s_un] if s_un else np.zeros((0, D.shape[1]), dtype=D.dtype)
                    tr_all = list(s_tr) + (list(s_un) if kind == "semi" else [])
                    md["tr_all"] = tr_all
                    off = md.get("off", False)
                    if kind == "semi":
                        ra = attempt(A.fit, Xtr.copy(), Ytr.copy(), Xun.copy()) if off else attempt(A.fit, Xtr.copy(), Ytr.copy(), Xun.copy(), Itr.copy())
                        rb = attempt(Bm.fit, Xtr.copy(), Ytr.copy(), Xun.copy())
                    elif not off and not case.get("no_labels") and (k + len(s_tr)) % 4 == 0:
                        # the caller keeps using its own index array after the fit (here: sorts it in place)
                        I_keep = Itr.copy()
                        ra = attempt(A.fit, Xtr.copy(), Ytr.copy(), I_keep)
                        I_keep.sort()
                        I_keep[:] = I_keep[::-1].copy()
                        rb = attempt(Bm.fit, Xtr.copy(), Ytr.copy())
                        bump(out.probes, "caller_reused_its_index_array_after_fit")
                    elif case.get("no_labels") and kind == "unsup":
                        # clustering without labels: the index array is passed by keyword
                        ra = attempt(A.fit, Xtr.copy()) if off else attempt(lambda: A.fit(Xtr.copy(), I_train=Itr.copy()))
                        rb = attempt(Bm.fit, Xtr.copy())
                        bump(out.probes, "unsupervised_fit_without_labels")
                    else:
                        ra = attempt(A.fit, Xtr.copy(), Ytr.copy()) if off else attempt(A.fit, Xtr.copy(), Ytr.copy(), Itr.copy())
                        rb = attempt(Bm.fit, Xtr.copy(), Ytr.copy())
                    if not consistent(ra, rb, "fit", k, metric, facts, out):
                        md["fitted"] = False
                        continue
                    sa = subgraph_state(A.subgraph, skip=("idx",))
                    sb = subgraph_state(Bm.subgraph, skip=("idx",))
                    if sa != sb:
                        raise Stop(violation("forest-differs", "op #%d fit: forest of the file-backed model differs from its on-the-fly twin (%s, metric %s, train indices %s%s): %s" % (k, kind, metric, tr, ", file overwritten meanwhile" if stale else "", first_diff(sb, sa)), metric_class=metric_class(metric), stale_file=stale, **facts))
                    # the file-backed model's nodes must carry the caller's indices
                    ia = [n.idx for n in A.subgraph.nodes]
                    md["fitted"] = True
                    if stale:
                        bump(out.probes, "fit_after_file_overwritten")
                    if not identity:
                        bump(out.probes, "non_identity_index_array")
                    if kind == "unsup" and getattr(A.subgraph, "best_k", 1) > 1:
                        bump(out.probes, "unsupervised_best_k_gt_1")
                    states.add(h64((kind, metric, ext, identity, stale, getattr(A.subgraph, "best_k", 0))))
                    log.add("fit", op[1] % len(models), dig(sa))
                    norm.append(("fit", op[1] % len(models)))
                elif kop == "predict":
                    if not md["fitted"]:
                        continue
                    out.steps += 1
                    s_te = md["sel"][2]
                    batch = [s_te[b % len(s_te)] for b in op[2]]
                    if not batch:
                        continue
                    Xq, Iq = D[batch], iarr(batch)
                    ra = attempt(A.predict, Xq.copy()) if md.get("off", False) else attempt(A.predict, Xq.copy(), Iq.copy())
                    rb = attempt(Bm.predict, Xq.copy())
                    if not consistent(ra, rb, "predict", k, metric, facts, out):
                        continue
                    pa, pb = canon_pred(ra[1]), canon_pred(rb[1])
                    if pa != pb:
                        raise Stop(violation("predictions-differ", "op #%d predict rows %s: file-backed model returns %s, on-the-fly twin %s (%s, metric %s, train indices %s)" % (k, batch, pa, pb, kind, metric, tr), metric_class=metric_class(metric), stale_file=stale, **facts))
                    compared_pred = True
                    states.add(h64((kind, metric, ext, identity, stale, "p")))
                    log.add("predict", tuple(batch), pa)
                    norm.append(("predict", tuple(batch)))
                else:
                    if not md["fitted"]:
                        continue
                    out.steps += 1
                    normalize = bool(op[2])
                    for which, mdl in (("file-backed", A), ("on-the-fly", Bm)):
                        ok, G, exc = attempt(mdl.get_distances, normalize)
                        if not ok:
                            raise Stop(raised_violation(exc, B.REPO_PKG, "get_distances"))
                        nodes = mdl.subgraph.nodes
                        fn = B.distance.DISTANCES[metric]
                        n = len(nodes)
                        tr_all = md.get("tr_all", tr_all)
                        E = np.zeros((n, n))
                        for i in range(n):
                            for j in range(n):
                                E[i, j] = fn(D[tr_all[i]].copy(), D[tr_all[j]].copy()) if n == len(tr_all) else fn(np.array(nodes[i].features), np.array(nodes[j].features))
                        G = np.asarray(G)
                        if G.shape != E.shape:
                            raise Stop(violation("get_distances-wrong", "get_distances returned shape %s for %d training samples" % (G.shape, n), normalize=normalize, **facts))
                        if md.get("scribbled"):
                            bump(out.probes, "get_distances_after_caller_modified_an_earlier_result")
                        if not normalize:
                            if abits(G) != abits(E):
                                ij = np.argwhere(~((G == E) | (np.isnan(G) & np.isnan(E))))
                                i, j = ij[0]
                                raise Stop(violation("get_distances-wrong", "%s model: get_distances()[%d][%d] = %r but the metric %s on that ordered pair gives %r" % (which, i, j, float(G[i, j]), metric, float(E[i, j])), normalize=False, **facts))
                        else:
                            En = (E - E.min()) / (E.max() - E.min())
                            if not np.allclose(G, En, rtol=1e-12, atol=0.0, equal_nan=True):
                                raise Stop(violation("get_distances-wrong", "%s model: normalised get_distances differs from (d-min)/(max-min)" % which, normalize=True, **facts))
                        # what was returned belongs to the caller: it may modify it in place
                        if G.flags.writeable and G.size and (k + len(nodes)) % 3 == 0:
                            np.fill_diagonal(G, np.inf)
                            G[0, -1] = -7.0
                            md["scribbled"] = True
                    log.add("getdist", normalize)
                    norm.append(("getdist", normalize))
            elif kop == "restart":
                f = op[1] % 2
                if file_metric[f] is None:
                    continue
                out.steps += 1
                from . import c19

                metric = file_metric[f]
                Bm = make(kind, metric, case)
                Xun0 = D[un] if un else np.zeros((0, D.shape[1]), dtype=D.dtype)
                rb = attempt(Bm.fit, *((D[tr].copy(), Y[tr].copy(), Xun0.copy()) if kind == "semi" else (D[tr].copy(), Y[tr].copy())))
                req = {"c10": True, "kind": kind, "metric": metric, "path": paths[f], "D": case["D"], "Y": case["Y"], "train": tr, "unl": un, "test": te, "max_k": case["max_k"], "min_k": case["min_k"], "dtype": case.get("dtype", "float64"), "layout": case.get("layout", "c")}
                rep = c19.restart_query(req)
                bump(out.faults, "restart_fresh_interpreter")
                if "error" in rep:
                    if not rb[0] and type(rb[2]).__name__ == rep.get("type"):
                        bump(out.probes, "call_raises_consistently")
                    else:
                        raise Stop(violation("restart-raised:%s" % rep.get("type"), "fresh interpreter failed at %s: %s" % (rep.get("stage"), rep["error"][-300:]), **facts))
                elif not rb[0]:
                    raise Stop(raised_violation(rb[2], B.REPO_PKG, "fit of the on-the-fly twin only"))
                else:
                    sb = dig(subgraph_state(Bm.subgraph, skip=("idx",)))
                    if rep["digest"] != sb:
                        raise Stop(violation("forest-differs", "fresh interpreter: forest of the file-backed model differs from the on-the-fly twin (%s, metric %s)" % (kind, metric), restart=True, **facts))
                    rbp = attempt(Bm.predict, D[te].copy())
                    if rbp[0] != (rep["preds"] is not None):
                        raise Stop(violation("predictions-differ", "fresh interpreter: predict %s for the file-backed model but %s for the twin" % ("worked" if rep["preds"] is not None else "raised", "worked" if rbp[0] else "raised"), restart=True, **facts))
                    if rbp[0] and canon_pred(rbp[1]) != tuple(tuple(x) for x in rep["preds"]):
                        raise Stop(violation("predictions-differ", "fresh interpreter: file-backed model predicts %s, twin %s" % (rep["preds"], canon_pred(rbp[1])), restart=True, **facts))
                    compared_pred = True
                log.add("restart", f)
                norm.append(("restart", f))
        out.digest = log.hexdigest()
        out.hist = h64((kind, case["metric"], ext, tuple(tr), tuple(un), tuple(te), tuple(norm)))
        out.nontrivial = (not identity) and compared_pred
        out.states = states
    except Stop as s:
        out.violation = s.violation
    except OutOfDomain:
        out.ood = 1
    finally:
        shutil.rmtree(scratch, ignore_errors=True)
    return out


def canon_pred(res):
    if isinstance(res, tuple) and len(res) == 2 and isinstance(res[0], list):
        return tuple((int(p), int(c)) for p, c in zip(res[0], res[1]))
    return tuple((int(p),) for p in res)


def consistent(ra, rb, what, k, metric, facts, out):
    """Both calls succeeded -> True.  Both raised the same type -> False (no verdict).
    Otherwise a violation: the file-backed model and its twin disagree on whether the
    call works at all."""
    if ra[0] and rb[0]:
        return True
    if not ra[0] and not rb[0] and type(ra[2]).__name__ == type(rb[2]).__name__:
        bump(out.probes, "call_raises_consistently")
        return False
    exc = ra[2] if not ra[0] else rb[2]
    who = "file-backed model" if not ra[0] else "on-the-fly twin"
    v = raised_violation(exc, B.REPO_PKG, "op #%d %s of the %s only (metric %s)" % (k, what, who, metric), extra_clause="-one-sided")
    v["facts"].update(facts)
    raise Stop(v)


def shrink(case):
    # drop a test row / an unlabeled row / shorten batches
    ops = case["ops"]
    for k, op in enumerate(ops):
        if op[0] == "predict" and len(op[2]) > 1:
            for j in range(len(op[2])):
                c = dict(case)
                c["ops"] = ops[:k] + [["predict", op[1], op[2][:j] + op[2][j + 1 :]]] + ops[k + 1 :]
                yield c
    if len(case["test"]) > 1:
        for j in range(len(case["test"])):
            c = dict(case)
            c["test"] = case["test"][:j] + case["test"][j + 1 :]
            yield c
    if case["kind"] != "semi" and len(case["train"]) > 2:
        for j in range(len(case["train"]) - 1, -1, -1):
            c = dict(case)
            c["train"] = case["train"][:j] + case["train"][j + 1 :]
            yield c
    if case["kind"] == "semi" and case["unl"]:
        pass
    if case["ext"] == "csv":
        c = dict(case)
        c["ext"] = "txt"
        yield c
    for key in ("max_k", "min_k"):
        if case.get(key, 1) > 1:
            c = dict(case)
            c[key] = case[key] - 1
            yield c
    simple = [[float(round(v)) for v in row] for row in case["D"]]
    if simple != case["D"]:
        c = dict(case)
        c["D"] = simple
        yield c


def sample_repr(case):
    return case
