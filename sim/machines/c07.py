"""C07 - no call modifies caller data; results depend only on argument values (DESIGN.md 4.2).

World = a pool of caller-owned arrays (feature matrices with labels, free-standing vectors,
row *views* of the matrices, aliased argument pairs).  The scheduler issues a history of API
calls that all share those buffers.  After every call:
  I1  every pool buffer is bit-identical to its pristine copy;
  I2  the call's result equals the result of the same call on fresh deep copies of the
      pristine arguments (a twin world without history).
"""

import os
import shutil
import tempfile

import numpy as np

from .. import bootstrap as B
from ..common import (
    lay_out, ALL_METRICS, REAL_DOMAIN, OutOfDomain, Stop, abits, arr, dig, fbits, first_diff, gen_labels,
    gen_matrix, gen_value, iarr, metric_class, model_state,
)
from ..engine import EventLog, Outcome, SimTimeout, bump, h64, library_site, raised_violation, violation

PID = "C07"
RULE = (
    "Each run builds a pool of 2-3 labelled float64 matrices (3-10 rows, shared dimension 1-4, styles incl. exact"
    " zeros / 1e-21..1e-19 magnitudes / denormals; C, Fortran, strided and column-sliced memory layouts whose owning"
    " buffers are digested) with caller-owned distance matrices and 2-4 free vectors, then executes a seeded history of 6-40 calls"
    " that share those buffers: dist(metric, a, b) over all 47 identifiers via the registry or via OPF(distance=..)"
    " .distance_fn with arguments that are free vectors, row views of the matrices or the same object twice;"
    " fit / fit+predict / get_distances of the four model kinds; fits through a caller-supplied pre_distances matrix;"
    " repeated fit/predict of two persistent model objects; pre_compute_distance; prune; split;"
    " split_with_index; merge; normalize; opf_accuracy; confusion_matrix; purity; the caller rewriting one of its own"
    " buffers in place between calls. Arm `fresh` re-evaluates the last calls of the history in a fresh interpreter."
    " Non-trivial: >= 2 calls touched the"
    " same base buffer; distinct = distinct (op kind, metric/model, argument references) sequences by 64-bit hash."
)
STATE_MEASURE = "distinct (op kind, metric or model kind, data style, alias pattern) tuples that were followed by another call on the same base buffer"
REAL = ["opfython.math.distance (all 47 metrics, numba-jitted, incl. the avoid_zero_division wrapper)", "OPF/SupervisedOPF/SemiSupervisedOPF/KNNSupervisedOPF/UnsupervisedOPF fit/predict/get_distances/prune", "math.general, stream.splitter", "all from the current working tree"]
STUBBED = ["logging disabled; nothing else (the twin world is the same library applied to deep copies; the `fresh` arm re-evaluates calls in a real second interpreter)"]
ASSUMPTIONS = [
    "Caller arrays are float64 feature arrays and int64 label arrays.",
    "SupervisedOPF.learn is excluded here: exchanging rows of the caller's arrays is its documented purpose (C17).",
    "A call that raises the same exception type on the live world and on the pristine twin gives no I2 verdict (I1 is still checked).",
]

KINDS = ("supervised", "semi", "knn", "unsup")


EXPECTED_PROBES = ['metric_called_with_keyword_arguments', 'model_call_on_overflowing_magnitudes', 'non_contiguous_argument', 'persistent_model_reused', 'persistent_model_predicts', 'caller_supplied_distance_matrix', 'result_compared_with_fresh_interpreter', 'call_raises_consistently', 'caller_rewrote_own_buffer_in_place', 'decorated_metric_on_exact_zero', 'model_fitted_on_buffer_with_history', 'same_array_as_both_arguments', 'tiny_magnitudes_present']

SLOW_ARMS = ("fresh",)


def arms(tier):
    if tier == "thorough":
        return [("mixed", 800_000), ("dist", 800_000), ("fresh", 16_000)]
    return [("mixed", 27_000), ("dist", 27_000), ("fresh", 640)]


def hist_slice(tier):
    return 1


NONNEG_STYLES = ("zeros", "positive", "prob", "lattice", "dups")


def gen_case(rng, arm, tier, k=0):
    d = rng.randint(1, 4)
    K = rng.randint(2, 3)
    mats = []
    for _ in range(rng.randint(2, 3)):
        style = rng.choice(("zeros", "zeros", "positive", "lattice", "generic", "dups", "prob"))
        n = rng.randint(max(3, K), 10)
        Ym = gen_labels(rng, n, K)
        if rng.random() < 0.25:
            # a fold without any class-0 sample (e.g. 1-based labels): legal for every call
            # whose predictions stay within the labels' range
            Ym = [y + 1 for y in Ym]
        elif rng.random() < 0.08:
            Ym = [Ym[0]] * n  # every sample carries the same label (fit completes, there is nothing to predict with)
        Xm = gen_matrix(rng, n, d, style)
        if rng.random() < 0.12:
            # finite values so large that squares overflow (1e200): still the caller's data
            for i in range(n):
                if rng.random() < 0.3:
                    Xm[i][rng.randrange(d)] = rng.choice((1e200, -1e200, 1.5e308, 3e155))
        if mats and rng.random() < 0.3:
            # a matrix with a few isolated rows far away from everything else
            for i in range(n):
                if rng.random() < 0.4:
                    Xm[i] = [abs(v) * 40.0 + 90.0 if abs(v) < 1e100 else v for v in Xm[i]]
        mats.append({"style": style, "X": Xm, "Y": Ym, "layout": rng.choice(("c", "c", "c", "f", "strided", "cols", "be"))})
    vecs = []
    for _ in range(rng.randint(2, 4)):
        style = rng.choice(("zeros", "zeros", "positive", "generic"))
        vecs.append({"style": style, "v": [gen_value(rng, style) for _ in range(d)], "layout": rng.choice(("c", "c", "strided"))})
    case = {"d": d, "mats": mats, "vecs": vecs}
    # two persistent model objects that are re-used across calls (max_k may exceed what a small
    # matrix supports: such a fit raises, consistently, and the object is used again afterwards)
    case["slots"] = [
        {"kind": rng.choice(KINDS + ("unsup",)), "metric": rng.choice(sorted(REAL_DOMAIN)), "max_k": rng.randint(1, 9), "min_k": 1}
        for _ in range(2)
    ]
    for m_ in mats:
        m_["pre_metric"] = rng.choice(("euclidean", "manhattan", "squared_euclidean", "chebyshev", "log_squared_euclidean", "gaussian", "gaussian", "free"))

    def ref():
        r = rng.random()
        if r < 0.35:
            return ["vec", rng.randrange(len(vecs))]
        k = rng.randrange(len(mats))
        return ["row", k, rng.randrange(len(mats[k]["X"]))]

    def style_of(r):
        return vecs[r[1]]["style"] if r[0] == "vec" else mats[r[1]]["style"]

    def metric_for(styles):
        if all(s in NONNEG_STYLES for s in styles):
            return rng.choice(ALL_METRICS)
        return rng.choice(sorted(REAL_DOMAIN))

    ops = []
    for _ in range(rng.randint(6, 40)):
        r = rng.random()
        if rng.random() < 0.12:
            # the caller reuses one of its own buffers: writes new values into it in place
            tgt = ref()
            if ops and ops[-1][0] == "dist" and rng.random() < 0.6:
                tgt = ops[-1][3] if rng.random() < 0.7 else ops[-1][4]  # the buffer just used as an argument
            st = style_of(tgt)
            ops.append(["mutate", tgt, rng.randrange(d), gen_value(rng, st if st not in ("dups", "prob") else "positive")])
            if len(ops) >= 2 and ops[-2][0] == "dist" and rng.random() < 0.7:
                ops.append(list(ops[-2]))  # the same evaluation on the changed contents
            continue
        if arm == "dist" or r < 0.45 or (arm == "fresh" and r < 0.85):
            a = ref()
            b = a if rng.random() < 0.12 else ref()
            ops.append(["dist", metric_for([style_of(a), style_of(b)]), rng.choice(("registry", "model", "kw_xy", "kw_y")), a, b])
            if rng.random() < 0.08:
                # the same vectors evaluated in single precision (copies: float32 is not the caller's buffer)
                ops.insert(len(ops) - 1, ["dist32", rng.choice(("jaccard", "manhattan", "euclidean", "chebyshev")), a, b])
            if rng.random() < 0.3:
                ops.append(list(ops[-1]))  # the same evaluation again
        elif r < 0.70:
            k = rng.randrange(len(mats))
            k2 = rng.randrange(len(mats))
            kind = rng.choice(KINDS)
            metric = metric_for([mats[k]["style"], mats[k2]["style"]])
            n = len(mats[k]["X"])
            mk = rng.randint(1, min(4, n - 1))
            ops.append([rng.choice(("fit", "fitpredict", "fitpredict", "getdist")), kind, metric, k, k2, mk, rng.randint(1, mk), rng.random() < 0.5])
        elif r < 0.73:
            k = rng.randrange(len(mats))
            ops.append(["precompute", metric_for([mats[k]["style"]]), k])
        elif r < 0.75 or (arm == "mixed" and rng.random() < 0.10):
            k = rng.randrange(len(mats))
            n = len(mats[k]["X"])
            mk = rng.randint(1, min(4, n - 1))
            ops.append(["prefit", rng.choice(("supervised", "knn", "unsup")), k, mk, rng.randint(1, mk), rng.random() < 0.6])
        elif arm == "mixed" and rng.random() < 0.06:
            # identifiers that only name the samples, in arrays the caller owns (not ascending)
            ka, kb = rng.randrange(len(mats)), rng.randrange(len(mats))
            ops.append(["idfit", rng.choice(("supervised", "knn", "unsup")), metric_for([mats[ka]["style"], mats[kb]["style"]]), ka, kb, rng.randint(1, 3)])
        elif arm == "mixed" and rng.random() < 0.05:
            # one model object: fit, predict some rows, then predict other rows (twice)
            sl, ka, kb, kc = rng.randrange(2), rng.randrange(len(mats)), rng.randrange(len(mats)), rng.randrange(len(mats))
            lab_ = rng.random() < 0.5
            ops.append(["mfit", sl, ka, kb, lab_])
            ops.append(["mpredict", sl, ka, kb, lab_])
            ops.append(["mpredict", sl, ka, kc, lab_])
            ops.append(["mpredict", sl, ka, kc, lab_])
        elif arm == "mixed" and rng.random() < 0.12:
            ops.append([rng.choice(("mfit", "mfit", "mpredict")), rng.randrange(2), rng.randrange(len(mats)), rng.randrange(len(mats)), rng.random() < 0.5])
            if ops[-1][0] == "mpredict" and rng.random() < 0.6:
                # the same model object predicts again, other rows first
                ops.append(["mpredict", ops[-1][1], ops[-1][2], rng.randrange(len(mats)), ops[-1][4]])
        elif r < 0.80:
            k, k2 = rng.randrange(len(mats)), rng.randrange(len(mats))
            ops.append(["prune", metric_for([mats[k]["style"], mats[k2]["style"]]), k, k2, rng.randint(1, 3)])
        elif r < 0.88:
            ops.append([rng.choice(("split", "split_with_index")), rng.randrange(len(mats)), rng.choice((0.0, 0.25, 0.5, 0.5, 0.75, 1.0)), rng.randint(0, 5)])
        elif r < 0.92:
            ops.append(["merge", rng.randrange(len(mats)), rng.randrange(len(mats))])
        elif r < 0.95:
            ops.append(["normalize", rng.randrange(len(mats))])
        else:
            ops.append([rng.choice(("accuracy", "confusion", "purity", "per_label")), rng.randrange(len(mats)), rng.randint(0, 3)])
    case["ops"] = ops
    return case


# --------------------------------------------------------------------------- worlds


class World:
    def __init__(self, case):
        if "labs" in case:  # explicit state (restart server)
            lays = case.get("layouts") or ["c"] * (len(case["mats"]) + len(case["vecs"]))
            self.layouts = lays
            made = [lay_out(arr(m).reshape(len(m), case["d"]), lays[i]) for i, m in enumerate(case["mats"])]
            self.mat_bases = [b for b, _ in made]
            self.mats = [v for _, v in made]
            self.labs = [iarr(y) for y in case["labs"]]
            madev = [lay_out(np.array(v, dtype=np.float64), lays[len(case["mats"]) + i]) for i, v in enumerate(case["vecs"])]
            self.vec_bases = [b for b, _ in madev]
            self.vecs = [v for _, v in madev]
            self.pres = [arr(p_).reshape(len(p_), len(p_)) for p_ in case.get("pres", [])]
            self.slot_specs = case.get("slots", [])
            self.new_models()
            self.make_ids()
            return
        self.layouts = [m.get("layout", "c") for m in case["mats"]] + [v.get("layout", "c") for v in case["vecs"]]
        made = [lay_out(arr(m["X"]).reshape(len(m["X"]), case["d"]), m.get("layout", "c")) for m in case["mats"]]
        self.mat_bases = [b for b, _ in made]
        self.mats = [v for _, v in made]
        self.labs = [iarr(m["Y"]) for m in case["mats"]]
        madev = [lay_out(np.array(v["v"], dtype=np.float64), v.get("layout", "c")) for v in case["vecs"]]
        self.vec_bases = [b for b, _ in madev]
        self.vecs = [v for _, v in madev]
        # caller-owned distance matrices (one per feature matrix), handed to models through the
        # public pre_distances setter
        self.pres = []
        for mi, (m, X) in enumerate(zip(case["mats"], self.mats)):
            n = len(X)
            P = np.zeros((n, n))
            if m.get("pre_metric") == "free":
                # the caller's own dissimilarities (not a function of the features, non-zero diagonal)
                for i in range(n):
                    for j in range(n):
                        P[i, j] = float((7 * i + 3 * j + mi) % 5 + 1) + (0.5 if i == j else 0.0)
                P = (P + P.T) / 2
            else:
                fn = B.distance.DISTANCES[m.get("pre_metric", "euclidean")]
                for i in range(n):
                    for j in range(n):
                        P[i, j] = fn(np.array(X[i], dtype=np.float64), np.array(X[j], dtype=np.float64))
            self.pres.append(P)
        self.slot_specs = case.get("slots", [])
        self.new_models()
        self.make_ids()

    def make_ids(self):
        # one identifier array per matrix: a fixed non-ascending arrangement of distinct values
        self.ids = []
        for mi, X in enumerate(self.mats):
            n = len(X)
            self.ids.append(np.array([(7 * i + 3 + mi) % n + 10 * (mi + 1) for i in range(n)] if n % 7 else [n - 1 - i + 10 * (mi + 1) for i in range(n)], dtype=np.int64))

    def clone(self):
        w = World.__new__(World)
        w.layouts = self.layouts
        made = [lay_out(np.array(m), self.layouts[i]) for i, m in enumerate(self.mats)]
        w.mat_bases = [b for b, _ in made]
        w.mats = [v for _, v in made]
        w.labs = [y.copy() for y in self.labs]
        madev = [lay_out(np.array(v), self.layouts[len(self.mats) + i]) for i, v in enumerate(self.vecs)]
        w.vec_bases = [b for b, _ in madev]
        w.vecs = [v for _, v in madev]
        w.pres = [p_.copy() for p_ in self.pres]
        w.slot_specs = self.slot_specs
        w.new_models()
        w.ids = [a.copy() for a in self.ids]
        return w

    def new_models(self):
        self.models = [make_model(sp["kind"], sp["metric"], sp["max_k"], sp["min_k"]) for sp in self.slot_specs]
        self.fitted = [None] * len(self.models)

    def buffers(self):
        # the *owning* buffers: a write outside the view the caller handed over counts too
        return [("mat%d" % i, m) for i, m in enumerate(self.mat_bases)] + [("lab%d" % i, y) for i, y in enumerate(self.labs)] + [("vec%d" % i, v) for i, v in enumerate(self.vec_bases)] + [("pre%d" % i, p_) for i, p_ in enumerate(self.pres)] + [("ids%d" % i, a) for i, a in enumerate(self.ids)]

    def get(self, r):
        if r[0] == "vec":
            return self.vecs[r[1] % len(self.vecs)]
        m = self.mats[r[1] % len(self.mats)]
        return m[r[2] % len(m)]  # a view of the caller's matrix

    def mutate(self, r, j, v):
        a = self.get(r)
        a[j % len(a)] = v

    def bufname(self, r):
        return "vec%d" % (r[1] % len(self.vecs)) if r[0] == "vec" else "mat%d" % (r[1] % len(self.mats))


def canon(x):
    if isinstance(x, np.ndarray):
        return abits(x)
    if isinstance(x, tuple) and x and isinstance(x[0], tuple) and x[0] and x[0][0] == "nodes":
        return x  # already a subgraph state
    if isinstance(x, (tuple, list)):
        return tuple(canon(v) for v in x)
    if isinstance(x, (float, np.floating)):
        return fbits(x)
    if isinstance(x, (int, np.integer, bool, np.bool_)):
        return fbits(x)
    if x is None or isinstance(x, (str, bytes)):
        return x
    if hasattr(x, "subgraph") and hasattr(x, "distance"):
        return model_state(x)
    return repr(x)


def make_model(kind, metric, max_k, min_k):
    if kind == "supervised":
        return B.supervised_mod.SupervisedOPF(distance=metric)
    if kind == "semi":
        return B.semi_mod.SemiSupervisedOPF(distance=metric)
    if kind == "knn":
        return B.knn_mod.KNNSupervisedOPF(max_k=max_k, distance=metric)
    return B.unsup_mod.UnsupervisedOPF(min_k=min_k, max_k=max_k, distance=metric)


def execute(op, w, scratch, tag, dealias=False):
    """Apply one op to world ``w``; returns the raw result.  With ``dealias`` an array that
    the call receives twice (same object as two arguments) is passed as two equal copies:
    results may depend on argument *values* only, not on object identity."""
    kind = op[0]
    if kind == "dist":
        _, name, via, a, b = op
        fn = B.opf_mod.OPF(distance=name).distance_fn if via == "model" else B.distance.DISTANCES[name]
        x = w.get(a)
        y = x if a == b else w.get(b)
        if dealias and a == b:
            y = np.array(x)
        if via == "kw_xy":
            return fn(x=x, y=y)  # the same call, arguments passed by keyword
        if via == "kw_y":
            return fn(x, y=y)
        return fn(x, y)
    if kind == "dist32":
        _, name, a, b = op
        return B.distance.DISTANCES[name](w.get(a).astype(np.float32), w.get(b).astype(np.float32))
    if kind in ("fit", "fitpredict", "getdist"):
        _, mkind, metric, k, k2, max_k, min_k, use_labels = op
        k %= len(w.mats)
        k2 %= len(w.mats)
        X, Y = w.mats[k], w.labs[k]
        n = len(X)
        max_k = max(1, min(max_k, n - 1))
        min_k = max(1, min(min_k, max_k))
        m = make_model(mkind, metric, max_k, min_k)
        X2, Y2 = w.mats[k2], w.labs[k2]
        if dealias and k2 == k:
            X2, Y2 = np.array(X2), np.array(Y2)
        if mkind == "supervised":
            m.fit(X, Y)
        elif mkind == "semi":
            m.fit(X, Y, X2)
        elif mkind == "knn":
            m.fit(X, Y, X2, Y2)
        else:
            m.fit(X, Y if use_labels else None)
            if use_labels:
                m.propagate_labels()
        if kind == "fit":
            return m
        if kind == "getdist":
            return (m.get_distances(), m.get_distances(normalize=True))
        p = m.predict(X2 if dealias and k2 == k else w.mats[k2])
        return (m, p)
    if kind == "prefit":
        _, mkind, k, max_k, min_k, normalize = op
        k %= len(w.mats)
        X, Y, P = w.mats[k], w.labs[k], w.pres[k]
        n = len(X)
        max_k = max(1, min(max_k, n - 1))
        min_k = max(1, min(min_k, max_k))
        m = make_model(mkind, "euclidean", max_k, min_k)
        m.pre_computed_distance = True
        m.pre_distances = P  # the caller's own matrix
        I = np.arange(n)
        if mkind == "knn":
            m.fit(X, Y, X, Y, I, I)
        else:
            m.fit(X, Y, I)
        st_fit = sg_state(m.subgraph)  # the forest as fitted (predictions below set relevance flags)
        g = m.get_distances(normalize)
        if not dealias and n >= 4:
            # (live world only) an earlier request of the same size with other identifiers
            half = n // 2
            m.predict(X[:half], I[:half])
            p_tail = m.predict(X[n - half :], I[n - half :])
        elif n >= 4:
            half = n // 2
            p_tail = m.predict(X[n - half :], I[n - half :])
        else:
            p_tail = None
        p = (m.predict(X, I), p_tail)
        m.pre_distances = None
        return (st_fit, g, p)
    if kind == "idfit":
        _, mkind, metric, k, k2, max_k = op
        k %= len(w.mats)
        k2 %= len(w.mats)
        X, Y, I = w.mats[k], w.labs[k], w.ids[k]
        n = len(X)
        m = make_model(mkind, metric, max(1, min(max_k, n - 1)), 1)
        if mkind == "knn":
            m.fit(X, Y, w.mats[k2], w.labs[k2], I, w.ids[k2])
        else:
            m.fit(X, Y, I)
        return (m, m.predict(w.mats[k2], w.ids[k2]))
    if kind in ("mfit", "mpredict"):
        _, slot, k, k2, use_labels = op
        slot %= len(w.models)
        k %= len(w.mats)
        k2 %= len(w.mats)
        m = w.models[slot]
        spec = w.slot_specs[slot]
        if kind == "mfit":
            X, Y = w.mats[k], w.labs[k]
            w.fitted[slot] = None
            if spec["kind"] == "supervised":
                m.fit(X, Y)
            elif spec["kind"] == "semi":
                m.fit(X, Y, w.mats[k2])
            elif spec["kind"] == "knn":
                m.fit(X, Y, w.mats[k2], w.labs[k2])
            else:
                m.fit(X, Y if use_labels else None)
            w.fitted[slot] = (k, k2, use_labels)
            return m
        if w.fitted[slot] is None:
            return "model not fitted"
        return m.predict(w.mats[k2])
    if kind == "precompute":
        _, metric, k = op
        path = os.path.join(scratch, "pre_%s.txt" % tag)
        B.general.pre_compute_distance(w.mats[k % len(w.mats)], path, metric)
        with open(path, "rb") as f:
            raw = f.read()
        # ... and a fresh model built from that file name must see exactly this matrix
        return (raw, B.opf_mod.OPF(pre_computed_distance=path).pre_distances)
    if kind == "prune":
        _, metric, k, k2, iters = op
        k %= len(w.mats)
        k2 %= len(w.mats)
        m = B.supervised_mod.SupervisedOPF(distance=metric)
        m.prune(w.mats[k], w.labs[k], w.mats[k2], w.labs[k2], n_iterations=iters)
        return m
    if kind in ("split", "split_with_index"):
        _, k, pct, seed = op
        k %= len(w.mats)
        fn = B.splitter.split if kind == "split" else B.splitter.split_with_index
        return fn(w.mats[k], w.labs[k], pct, seed)
    if kind == "merge":
        _, k, k2 = op
        k %= len(w.mats)
        k2 %= len(w.mats)
        return B.splitter.merge(w.mats[k], w.mats[k2], w.labs[k], w.labs[k2])
    if kind == "normalize":
        return B.general.normalize(w.mats[op[1] % len(w.mats)])
    if kind in ("accuracy", "confusion", "purity", "per_label"):
        _, k, shift = op
        y = w.labs[k % len(w.labs)]
        preds = np.roll(y, shift)
        fn = {"accuracy": B.general.opf_accuracy, "confusion": B.general.confusion_matrix, "purity": B.general.purity, "per_label": B.general.opf_accuracy_per_label}[kind]
        return fn(y, preds)
    raise ValueError(op)


def sg_state(sg):
    from ..common import subgraph_state

    return subgraph_state(sg)


def touched(op, w):
    if op[0] == "idfit":
        return {"mat%d" % (op[3] % len(w.mats)), "mat%d" % (op[4] % len(w.mats)), "ids%d" % (op[3] % len(w.mats)), "ids%d" % (op[4] % len(w.mats))}
    if op[0] == "dist32":
        return {w.bufname(op[2]), w.bufname(op[3])}
    if op[0] == "prefit":
        return {"mat%d" % (op[2] % len(w.mats)), "pre%d" % (op[2] % len(w.mats))}
    if op[0] in ("mfit", "mpredict"):
        return {"mat%d" % (op[2] % len(w.mats)), "mat%d" % (op[3] % len(w.mats))}
    if op[0] == "mutate":
        return {w.bufname(op[1])}
    if op[0] == "dist":
        return {w.bufname(op[3]), w.bufname(op[4])}
    if op[0] in ("fit", "fitpredict", "getdist"):
        return {"mat%d" % (op[3] % len(w.mats)), "mat%d" % (op[4] % len(w.mats))}
    if op[0] == "prune":
        return {"mat%d" % (op[2] % len(w.mats)), "mat%d" % (op[3] % len(w.mats))}
    if op[0] == "merge":
        return {"mat%d" % (op[1] % len(w.mats)), "mat%d" % (op[2] % len(w.mats))}
    if op[0] in ("accuracy", "confusion", "purity", "per_label"):
        return {"lab%d" % (op[1] % len(w.mats))}
    return {"mat%d" % (op[1 if op[0] != "precompute" else 2] % len(w.mats))}


def op_label(op):
    if op[0] == "idfit":
        return ("idfit", op[1], op[2])
    if op[0] == "mutate":
        return ("mutate",)
    if op[0] == "dist32":
        return ("dist32", op[1])
    if op[0] == "prefit":
        return ("prefit", op[1])
    if op[0] in ("mfit", "mpredict"):
        return (op[0], op[1])
    if op[0] == "dist":
        return ("dist", op[1], op[2])
    if op[0] in ("fit", "fitpredict", "getdist"):
        return (op[0], op[1], op[2])
    if op[0] in ("precompute", "prune"):
        return (op[0], op[1])
    return (op[0],)


def attempt(op, w, scratch, tag, dealias=False):
    try:
        return True, execute(op, w, scratch, tag, dealias), None
    except (Exception, SimTimeout) as exc:  # noqa: BLE001
        if library_site(exc, B.REPO_PKG) is None and op[0] not in ("dist", "dist32"):
            raise
        # (a jitted metric called directly has no Python frame of its own: an exception out of a
        # `dist` op - e.g. numba refusing a big-endian array - is the metric's outcome)
        return False, None, exc


def run_case(case):
    out = Outcome()
    scratch = tempfile.mkdtemp(prefix="verif-c07-", dir="/dev/shm" if os.path.isdir("/dev/shm") else None)
    try:
        if not case["mats"] or not case["vecs"]:
            raise OutOfDomain()
        base_err = np.geterr()
        live = World(case)
        shadow = World(case)  # what the caller itself wrote; never handed to the library
        pristine = [(name, abits(b)) for name, b in shadow.buffers()]
        snapshots = [shadow.clone()]
        pending = []
        log = EventLog()
        last_touch = {}
        states = set()
        norm = []
        shared = 0
        for k, op in enumerate(case["ops"]):
            out.steps += 1
            lab = op_label(op)
            if op[0] == "mutate":
                live.mutate(op[1], op[2], op[3])
                shadow.mutate(op[1], op[2], op[3])
                if op[1][0] == "row":
                    hit = op[1][1] % len(live.mats)
                    for si, ft in enumerate(live.fitted):
                        # a fitted model aliases the caller's rows (Node.features are views): once
                        # the caller rewrites them the model is the caller's business, not C07's
                        if ft is not None and hit in (ft[0], ft[1]):
                            live.fitted[si] = None
                pristine = [(name, abits(b)) for name, b in shadow.buffers()]
                snapshots.append(shadow.clone())
                bump(out.probes, "caller_rewrote_own_buffer_in_place")
                log.add(k, "mutate")
                last_touch[live.bufname(op[1])] = lab
                norm.append((lab, tuple(op[1:])))
                continue
            mclass = metric_class(lab[1]) if len(lab) > 1 and lab[1] in ALL_METRICS else (metric_class(lab[2]) if len(lab) > 2 else "none")
            prep = None
            if op[0] == "mpredict" and live.models:
                ft = live.fitted[op[1] % len(live.models)]
                if ft is not None:
                    prep = ["mfit", op[1], ft[0], ft[1], ft[2]]
            ok, res, exc = attempt(op, live, scratch, "live")
            # ---- I3: process-global numeric state (NumPy's error handling) is part of "history"
            if np.geterr() != base_err:
                now_err = np.geterr()
                np.seterr(**base_err)
                raise Stop(
                    violation(
                        "global-numpy-error-state-changed",
                        "op #%d %s left numpy's floating-point error handling changed from %s to %s: every later call in the process now behaves differently" % (k, op, base_err, now_err),
                        op=lab[0],
                        metric_class=mclass,
                    )
                )
            # ---- I1: caller buffers untouched
            for (name, want), (_, buf) in zip(pristine, live.buffers()):
                if abits(buf) != want:
                    was = np.frombuffer(want[2], dtype=np.float64 if want[1] == "f" else np.int64)
                    now = np.ascontiguousarray(buf).ravel()
                    idx = [i for i in range(len(was)) if fbits(was[i]) != fbits(now[i])][:3]
                    raise Stop(
                        violation(
                            "caller-data-modified",
                            "after op #%d %s the caller's array %s changed: element(s) %s were %s and are now %s"
                            % (k, op, name, idx, [float(was[i]) for i in idx], [float(now[i]) for i in idx]),
                            op=lab[0],
                            metric_class=mclass,
                            buffer=name[:3],
                        )
                    )
            # ---- I2 is decided after the history (below): evaluating the twin in between would
            # itself perturb whatever hidden state the library keeps from call to call
            pending.append((k, op, lab, mclass, ok, canon(res) if ok else None, exc, len(snapshots) - 1, prep))
            if op[0] in ("mfit", "mpredict"):
                bump(out.probes, "persistent_model_reused" if op[0] == "mfit" else "persistent_model_predicts")
            if op[0] == "prefit":
                bump(out.probes, "caller_supplied_distance_matrix")
            # ---- probes / measures
            t = touched(op, live)
            for name in t:
                if name in last_touch:
                    shared += 1
                    states.add(h64((last_touch[name], case_style(case, name), len(t) == 1 and op[0] == "dist")))
                last_touch[name] = lab
            if op[0] in ("fit", "fitpredict", "getdist", "mfit") and any(np.abs(mm).max() > 1e150 for mm in live.mats):
                bump(out.probes, "model_call_on_overflowing_magnitudes")
            if op[0] == "dist":
                x, y = live.get(op[3]), live.get(op[4])
                if not (x.flags.c_contiguous and y.flags.c_contiguous):
                    bump(out.probes, "non_contiguous_argument")
                if mclass == "decorated" and (np.any(x == 0.0) or np.any(y == 0.0)):
                    bump(out.probes, "decorated_metric_on_exact_zero")
                if op[3] == op[4]:
                    bump(out.probes, "same_array_as_both_arguments")
                if (np.any((np.abs(x) > 0) & (np.abs(x) < 1e-18))) or (np.any((np.abs(y) > 0) & (np.abs(y) < 1e-18))):
                    bump(out.probes, "tiny_magnitudes_present")
            elif op[0] in ("fit", "fitpredict", "getdist") and any(n in last_touch for n in t):
                bump(out.probes, "model_fitted_on_buffer_with_history")
            norm.append((lab, tuple(map(tuple_or, op[3:5])) if op[0] == "dist" else tuple(op[1:])))
        # ---- I2: every recorded result equals the same call in a world without history
        for k, op, lab, mclass, ok, a, exc, ver, prep in pending:
            twin = snapshots[ver].clone()
            if prep is not None:
                attempt(prep, twin, scratch, "twin")  # a fresh model fitted on the same arguments
            twin_op = op
            if op[0] == "dist" and op[2] in ("kw_xy", "kw_y"):
                twin_op = [op[0], op[1], "registry"] + op[3:]  # the same argument values, passed positionally
                bump(out.probes, "metric_called_with_keyword_arguments")
            ok2, res2, exc2 = attempt(twin_op, twin, scratch, "twin%d" % k, dealias=True)
            if ok != ok2 or (not ok and type(exc).__name__ != type(exc2).__name__):
                e = exc if not ok else exc2
                if library_site(e, B.REPO_PKG) is None:
                    raise Stop(violation("raised-history-dependent:%s@metric" % type(e).__name__, "op #%d %s raised %s on the %s world only: %s" % (k, op, type(e).__name__, "live" if not ok else "pristine", str(e)[:160]), op=lab[0], metric_class=mclass))
                v = raised_violation(e, B.REPO_PKG, "op #%d %s on the %s world only" % (k, op, "live" if not ok else "pristine"), extra_clause="-history-dependent")
                raise Stop(v)
            if not ok:
                bump(out.probes, "call_raises_consistently")
                log.add(k, lab, "raises", type(exc).__name__)
                continue
            b = canon(res2)
            if a != b:
                raise Stop(
                    violation(
                        "result-depends-on-history",
                        "op #%d %s returned a different value within the history than the same call on fresh copies of the same argument values: %s"
                        % (k, op, first_diff(a, b)),
                        op=lab[0],
                        metric_class=mclass,
                    )
                )
            log.add(k, lab, dig(a))
        # ---- restart arm: the same calls in a fresh interpreter (cold process state, other
        # PYTHONHASHSEED and cwd) must give bit-identical results
        if case.get("arm") == "fresh":
            from . import c19

            sample = [pn for pn in pending if pn[4] and pn[1][0] not in ("precompute", "mfit", "mpredict")][-10:]
            for k, op, lab, mclass, ok, a, exc, ver, prep in sample:
                snap = snapshots[ver]
                req = {"c07": True, "d": case["d"], "mats": [m.tolist() for m in snap.mats], "labs": [y.tolist() for y in snap.labs], "vecs": [v.tolist() for v in snap.vecs], "pres": [p_.tolist() for p_ in snap.pres], "slots": case.get("slots", []), "layouts": snap.layouts, "op": op}
                if op[0] == "idfit":
                    continue
                rep = c19.restart_query(req)
                bump(out.faults, "restart_fresh_interpreter")
                if "error" in rep:
                    raise Stop(violation("restart-raised:%s" % rep.get("type"), "op #%d %s works in the running process but raises in a fresh interpreter: %s" % (k, op, rep["error"][-300:]), op=lab[0], metric_class=mclass))
                if rep["digest"] != dig(a):
                    raise Stop(violation("result-depends-on-process-state", "op #%d %s returns a different value in a fresh interpreter than in the running process" % (k, op), op=lab[0], metric_class=mclass))
                bump(out.probes, "result_compared_with_fresh_interpreter")
        out.digest = log.hexdigest()
        out.hist = h64((case["d"], tuple(norm)))
        out.nontrivial = shared >= 1
        out.states = states
    except Stop as s:
        out.violation = s.violation
    except OutOfDomain:
        out.ood = 1
    finally:
        np.seterr(all="ignore")
        shutil.rmtree(scratch, ignore_errors=True)
    return out


def tuple_or(x):
    return tuple(x) if isinstance(x, list) else x


def case_style(case, name):
    i = int(name[3:])
    if name.startswith("vec"):
        return case["vecs"][i]["style"]
    return case["mats"][i]["style"]


# --------------------------------------------------------------------------- shrink


def shrink(case):
    ops = case["ops"]
    # fewer rows in matrices (row refs are taken modulo the length)
    for i, m in enumerate(case["mats"]):
        if len(m["X"]) > 3:
            c = dict(case)
            mm = dict(m)
            mm["X"] = m["X"][:-1]
            mm["Y"] = m["Y"][:-1]
            if sorted(set(mm["Y"])) == sorted(set(m["Y"])):
                c["mats"] = case["mats"][:i] + [mm] + case["mats"][i + 1 :]
                yield c
    # simpler ops: model ops -> fit only
    for k, op in enumerate(ops):
        if op[0] in ("fitpredict", "getdist"):
            c = dict(case)
            c["ops"] = ops[:k] + [["fit"] + op[1:]] + ops[k + 1 :]
            yield c
    # round values
    for i, m in enumerate(case["mats"]):
        simple = [[float(round(v)) if 0.5 <= abs(v) < 1e15 else v for v in row] for row in m["X"]]
        if simple != m["X"]:
            c = dict(case)
            mm = dict(m)
            mm["X"] = simple
            c["mats"] = case["mats"][:i] + [mm] + case["mats"][i + 1 :]
            yield c


def sample_repr(case):
    return case
