"""C09 - a prediction is a function of (fitted model, sample) (DESIGN.md 4.3).

One fitted model per run; the scheduler assembles predict batches from a pool of query
samples (any length, order, repetition), interleaves operations that must be irrelevant to
later predictions, and injects the *aborted call* fault (the distance callback raises after
n evaluations inside predict).  Oracle: single-valuedness over the recorded history - every
label (and cluster) ever returned for pool sample q equals the one a pristine deep copy of
the fitted model returns for q predicted alone.
"""

import copy
import os
import shutil
import tempfile

import numpy as np

from .. import bootstrap as B
from ..common import (
    lay_out, ALL_METRICS, REAL_DOMAIN, OutOfDomain, Stop, arr, gen_labels, gen_matrix, iarr,
    knn_all_zero_accuracy, lib_call, metric_class, style_for_metric,
)
from ..engine import EventLog, Outcome, SimAbort, bump, h64, violation

PID = "C09"
RULE = (
    "Each run fits one model (kind in supervised / semi-supervised / KNN-supervised / unsupervised with or without"
    " label propagation; swarm-chosen metric out of all 47, data style, k range, n_train 2-14, on-the-fly or"
    " pre-computed distances) and executes a seeded history of 4-30 operations: predict(batch assembled from a pool"
    " of 6-16 query samples: copies of training rows, duplicates, midpoints, outliers, generic points),"
    " get_distances, save, and aborted predicts (fault). A run is non-trivial when some pool sample was predicted at"
    " >= 2 different batch positions; distinct = distinct (kind, metric, n_train, op kinds, batch index tuples) by"
    " 64-bit hash."
)
STATE_MEASURE = "distinct (kind, n_train, best_k, batch length, sorted set of positions at which one pool sample has been predicted so far) tuples"
REAL = ["the four model classes' fit/predict/propagate_labels, OPF.get_distances/save, Subgraph/KNNSubgraph, all 47 numba-jitted metrics, from the current working tree"]
STUBBED = ["fault arm only: opf.distance_fn (public settable attribute) wrapped by a counting callback that raises SimAbort at the n-th evaluation, restored afterwards", "logging disabled"]
ASSUMPTIONS = [
    "Reference = a deep copy of the fitted model taken right after fit, predicting each sample alone (no model of OPF is needed for single-valuedness).",
    "Relevance flags written by supervised predict are not part of the comparison (the property allows them).",
    "Worlds: >= 2 classes, k <= n_train - 1; a fit that raises, and KNN worlds where every k scores accuracy 0, give no verdict (counted as out-of-domain).",
]

KINDS = ("supervised", "semi", "knn", "unsup", "unsup_prop")


EXPECTED_PROBES = ['reference_computed_in_isolated_process', 'second_model_alive', 'labels_propagated_after_predictions', 'model_object_refitted_mid_history', 'labels_beyond_int32', 'integer_typed_batch_predicted', 'irrelevant_public_call_between_predictions', 'training_identifiers_unlike_positions', 'non_contiguous_arrays', 'distance_matrix_unrelated_to_features', 'query_of_overflowing_magnitude', 'non_float64_features', 'index_arrays_passed_without_precomputed_distances', 'batch_longer_than_training_set', 'duplicates_inside_one_batch', 'model_', 'position_ge1_is_valid_training_index', 'query_equals_training_sample', 'query_raises_consistently', 'successful_predict_after_abort']


def arms(tier):
    if tier == "thorough":
        return [("fly", 900_000), ("pre", 300_000), ("abort", 300_000)]
    return [("fly", 24_000), ("pre", 8_000), ("abort", 8_000)]


def hist_slice(tier):
    return 1


def gen_case(rng, arm, tier, k=0):
    kind = rng.choice(KINDS)
    if arm == "pre" and kind == "semi":
        kind = "supervised"
    metric = rng.choice(ALL_METRICS)
    style = style_for_metric(rng, metric, allow_zeros=True)
    d = rng.randint(1, 4)
    n = rng.randint(2, 14)
    if kind in ("knn", "unsup", "unsup_prop"):
        n = max(n, 3)
    K = rng.randint(2, 3)
    X = gen_matrix(rng, n, d, style)
    Y = gen_labels(rng, n, K)
    case = {"kind": kind, "metric": metric, "style": style, "pre": arm == "pre", "X": X, "Y": Y}
    if arm != "pre" and rng.random() < 0.10:
        # features that are not float64
        case["dtype"] = rng.choice(B.DTYPES)
        case["metric"] = metric = rng.choice(B.DTYPE_METRICS)
        case["X"] = X = [[float(int(abs(v)) % 4) for v in r] for r in X]
    if rng.random() < 0.25:
        case["layout"] = rng.choice(("f", "strided", "cols"))  # non-contiguous training and query arrays
    if arm != "pre" and rng.random() < 0.15:
        # the caller passes index arrays although distances are computed on the fly: they only
        # name the samples and must not influence any label (small values collide with training idx)
        case["query_idx"] = [rng.randrange(0, n + 2) for _ in range(20)]
    if arm == "pre" and rng.random() < 0.3:
        case["pre_order"] = "f"
    if arm != "pre" and kind != "knn" and rng.random() < 0.06:
        case["big_labels"] = True  # (KNN is left out: opf_accuracy allocates a table of max(label) rows)
    if arm != "pre" and rng.random() < 0.2:
        # the training samples carry identifiers of their own (a permutation, or values beyond n)
        tid = rng.choice((list(range(n + 4)), [3 * i + 1 for i in range(n + 4)], [2**31 + 5 * i for i in range(n + 4)]))
        rng.shuffle(tid)
        case["train_ids"] = tid
    if kind == "semi":
        case["XU"] = gen_matrix(rng, rng.randint(0, 5), d, style)
    if kind == "knn":
        case["max_k"] = rng.randint(1, min(5, n - 1))
        # validation rows are copies of training rows (so some k scores > 0 w.h.p.)
        vi = [rng.randrange(n) for _ in range(rng.randint(2, 6))]
        for c in range(max(Y) + 1):
            vi.append(Y.index(c))
        case["val_idx"] = vi
    if kind in ("unsup", "unsup_prop"):
        case["max_k"] = rng.randint(1, min(5, n - 1))
        case["min_k"] = rng.randint(1, case["max_k"])
    # query pool
    pool = []
    npool = rng.randint(6, 16)
    if arm == "pre" and kind == "knn":
        # KNNSupervisedOPF insists on an n_train x n_train matrix: queries are training rows
        pool = [["train", rng.randrange(n)] for _ in range(npool)]
    else:
        for _ in range(npool):
            r = rng.random()
            if r < 0.3:
                pool.append(["train", rng.randrange(n)])
            elif r < 0.45 and pool:
                pool.append(["dup", rng.randrange(len(pool))])
            elif r < 0.65:
                a, b = rng.randrange(n), rng.randrange(n)
                pool.append(["row", [(X[a][j] + X[b][j]) / 2 for j in range(d)]])
            elif r < 0.72:
                a = rng.randrange(n)
                pool.append(["row", [X[a][j] * 10 + 1 for j in range(d)]])
            elif r < 0.75:
                # finite but so large that squared differences overflow to inf
                big = rng.choice((1e200, 1.7e308, -1e200, 1e160))
                pool.append(["row", [big if rng.random() < 0.7 else X[0][j] for j in range(d)]])
            else:
                pool.append(["row", gen_matrix(rng, 1, d, style if style != "dups" else "lattice")[0]])
    if case.get("dtype"):
        pool = [p if p[0] != "row" else ["row", [float(int(abs(v)) % 4) for v in p[1]]] for p in pool]
        if "XU" in case:
            case["XU"] = [[float(int(abs(v)) % 4) for v in r] for r in case["XU"]]
    if arm != "pre" and style not in ("lattice", "dups") and not case.get("dtype") and rng.random() < 0.3:
        # a few whole-number query rows (rounded training rows): they can be handed over as an
        # integer array although the model was fitted on non-integer floats
        case["whole"] = []
        for _ in range(rng.randint(1, 3)):
            a = rng.randrange(n)
            case["whole"].append(len(pool))
            pool.append(["row", [float(round(X[a][j])) if abs(X[a][j]) < 1e9 else 0.0 for j in range(d)]])
        npool = len(pool)
    case["pool"] = pool
    if arm == "pre" and kind != "knn" and rng.random() < 0.5:
        case["pool_first"] = True
    if arm == "pre" and rng.random() < 0.35:
        # distances that do not come from the features (the caller's own dissimilarities): with
        # a pre-computed matrix a sample is identified by its index alone
        case["free_matrix_seed"] = rng.getrandbits(30)
    ops = []
    for _ in range(rng.randint(4, 30)):
        r = rng.random()
        blen = rng.choice((1, 1, 2, 2, 3, 4, 5, 8, 16, 33, 40, 70))
        batch = [rng.randrange(npool) for _ in range(blen)]
        if rng.random() < 0.3:
            # the same sample at several positions of one batch
            q = rng.randrange(npool)
            batch = [q if rng.random() < 0.5 else b for b in batch] + [q]
        if case.get("whole") and r > 0.9:
            wb = [rng.choice(case["whole"]) for _ in range(rng.randint(1, 3))]
            ops.append(["predict_int", wb])  # whole-number rows handed over as an integer array
            ops.append(["predict", [rng.randrange(npool) for _ in range(rng.randint(1, 4))]])
        elif arm != "pre" and r > 0.97 and style in ("lattice", "dups") and not case.get("dtype"):
            ops.append(["predict_int", batch])
        elif arm == "abort" and r < 0.2:
            ops.append(["abort", batch, rng.randint(1, 3 * n)])
        elif r < 0.85:
            ops.append(["predict", batch])
        elif r < 0.91:
            ops.append(["getdist"])
        elif r < 0.96:
            # public knobs and bookkeeping calls that a fitted model's predictions must not depend on
            ops.append(["knob", rng.choice(("max_k", "min_k", "distance_same", "mark_nodes", "accuracy")), rng.randint(1, 9)])
        else:
            ops.append(["save"])
    if kind == "unsup" and rng.random() < 0.5 and len(ops) > 3:
        # labels are propagated only after the model has already been used for predictions
        ops.insert(rng.randrange(2, len(ops)), ["propagate"])
    if arm != "pre" and rng.random() < 0.3:
        # a second model of the same kind, fitted on other data, is alive and predicts in between
        case["bystander"] = True
        for _ in range(rng.randint(2, 6)):
            ops.insert(rng.randrange(0, len(ops) + 1), ["bystander", [rng.randrange(npool) for _ in range(rng.randint(1, 4))]])
    if arm != "pre" and (case.get("bystander") or rng.random() < 0.25) and len(ops) > 3:
        # the same model object is fitted again on other data half-way through the history
        order = list(range(n))
        rng.shuffle(order)
        X2 = [list(case["X"][o]) for o in order]
        Y2 = [case["Y"][o] for o in order]
        for _ in range(rng.randint(1, 3)):
            i_ = rng.randrange(n)
            X2[i_] = [v + rng.choice((-1.0, 1.0, 0.5)) if abs(v) < 1e9 else v for v in X2[i_]]
            if style in ("positive", "prob", "zeros"):
                X2[i_] = [abs(v) + 0.05 for v in X2[i_]]
        case["X2"], case["Y2"] = X2, Y2
        if not case.get("bystander") or rng.random() < 0.3:
            ops.insert(rng.randrange(2, len(ops)), ["refit"])
    case["ops"] = ops
    return case


# --------------------------------------------------------------------------- world


def pool_rows(case):
    X = case["X"]
    rows = []
    for p in case["pool"]:
        if p[0] == "train":
            rows.append(list(X[p[1] % len(X)]))
        elif p[0] == "dup":
            rows.append(list(rows[p[1] % len(rows)]) if rows else list(X[0]))
        else:
            rows.append(list(p[1]))
    return rows


def pool_index(case, q):
    """Row index of pool sample q in the full data set D = [train rows; pool rows]
    (pre-computed arm).  KNN pre arm: the training row itself."""
    if case["kind"] == "knn":
        p = case["pool"][q]
        return p[1] % len(case["X"])
    if case.get("pool_first"):
        return q  # D = [pool rows; train rows]: identifier 0 belongs to a query sample
    return len(case["X"]) + q


def tarr(case, rows):
    """Feature rows in the world's dtype (float64 unless the case says otherwise)."""
    a = arr(rows)
    dt = case.get("dtype", "float64")
    if dt != "float64":
        return a.astype(dt)
    lay = case.get("layout", "c")
    if lay != "c" and a.ndim == 2 and len(a):
        return lay_out(a, lay)[1]
    return a


BIG_LABELS = (2147483653, 7, 4000000011)  # legal class labels: any non-negative integer


def lab(case, ys):
    """The world's labels 0..K-1, or - with ``big_labels`` - mapped onto huge integers."""
    if case.get("big_labels"):
        return iarr([BIG_LABELS[y % 3] for y in ys])
    return iarr(ys)


def build_model(case, scratch=None):
    kind, metric = case["kind"], case["metric"]
    X, Y = tarr(case, case["X"]), lab(case, case["Y"])
    n = len(case["X"])
    if n < 2 or (kind != "unsup" and len(set(case["Y"])) < 2) or sorted(set(case["Y"])) != list(range(max(case["Y"]) + 1)):
        raise OutOfDomain()
    if kind in ("knn", "unsup", "unsup_prop") and n < 3:
        raise OutOfDomain()
    if kind == "supervised":
        m = B.supervised_mod.SupervisedOPF(distance=metric)
    elif kind == "semi":
        m = B.semi_mod.SemiSupervisedOPF(distance=metric)
    elif kind == "knn":
        m = B.knn_mod.KNNSupervisedOPF(max_k=max(1, min(case["max_k"], n - 1)), distance=metric)
    else:
        mk = max(1, min(case["max_k"], n - 1))
        m = B.unsup_mod.UnsupervisedOPF(min_k=max(1, min(case["min_k"], mk)), max_k=mk, distance=metric)
    I = None
    rows = pool_rows(case)
    if case["pre"]:
        fn = m.distance_fn
        pool_first = bool(case.get("pool_first")) and kind != "knn"
        D = (rows + [list(r) for r in case["X"]]) if pool_first else ([list(r) for r in case["X"]] + ([] if kind == "knn" else rows))
        N = len(D)
        M = np.zeros((N, N))
        if case.get("free_matrix_seed") is not None:
            import random as _random

            r_ = _random.Random(case["free_matrix_seed"])
            for i in range(N):
                for j in range(i + 1, N):
                    M[i, j] = M[j, i] = float(r_.randint(1, 6)) if r_.random() < 0.5 else round(r_.uniform(0.1, 9.0), 2)
        else:
            for i in range(N):
                for j in range(N):
                    M[i, j] = fn(np.array(D[i], dtype=np.float64), np.array(D[j], dtype=np.float64))
        if scratch is not None and case.get("pre_from_file"):
            # the matrix reaches the model through a distance file named at construction; with
            # "replace" the caller then installs another matrix through the public setter
            import os as _os

            path = _os.path.join(scratch, "model_distances.txt")
            if case["pre_from_file"] == "replace":
                np.savetxt(path, M[::-1, ::-1].copy() + 1.0, delimiter=" ")
            else:
                np.savetxt(path, M, delimiter=" ")
            kw = dict(distance=metric, pre_computed_distance=path)
            if kind == "supervised":
                m = B.supervised_mod.SupervisedOPF(**kw)
            elif kind == "semi":
                m = B.semi_mod.SemiSupervisedOPF(**kw)
            elif kind == "knn":
                m = B.knn_mod.KNNSupervisedOPF(max_k=m.max_k, **kw)
            else:
                m = B.unsup_mod.UnsupervisedOPF(min_k=m.min_k, max_k=m.max_k, **kw)
            if case["pre_from_file"] == "replace":
                m.pre_distances = M
        else:
            m.pre_computed_distance = True
            # the caller's matrix may be Fortran-ordered (e.g. filled column by column)
            m.pre_distances = np.asfortranarray(M) if case.get("pre_order") == "f" else M
        I = iarr([len(rows) + i for i in range(n)]) if pool_first else iarr(list(range(n)))
    if not case["pre"] and case.get("train_ids") and kind in ("supervised", "unsup", "unsup_prop"):
        I = iarr(case["train_ids"][:n])
    if kind == "supervised":
        m.fit(X, Y, I)
    elif kind == "semi":
        if case["pre"]:
            raise OutOfDomain()  # unlabeled rows would need indices n..n+u-1 in D: covered by C10
        XU = tarr(case, case["XU"]).reshape(len(case["XU"]), X.shape[1])
        m.fit(X, Y, XU)
    elif kind == "knn":
        vi = [v % n for v in case["val_idx"]]
        if set(case["Y"][v] for v in vi) != set(case["Y"]):
            raise OutOfDomain()
        XV, YV = tarr(case, [case["X"][v] for v in vi]), iarr([case["Y"][v] for v in vi])
        if not case["pre"] and case.get("train_ids"):
            # identifiers in feature mode only name the samples
            tid = case["train_ids"]
            m.fit(X, Y, XV, YV, iarr(tid[:n]), iarr([tid[v] for v in vi]))
        else:
            m.fit(X, Y, XV, YV, I, iarr(vi) if case["pre"] else None)
    else:
        m.fit(X, Y, I)
        if kind == "unsup_prop":
            m.propagate_labels()
    return m, rows


def fit_existing(m, case):
    """Fit an already used model object again (feature mode), with the same call shapes as build_model."""
    kind = case["kind"]
    X, Y = tarr(case, case["X"]), lab(case, case["Y"])
    n = len(X)
    I = None
    if case.get("train_ids") and kind in ("supervised", "unsup", "unsup_prop"):
        I = iarr(case["train_ids"][:n])
    if kind == "supervised":
        m.fit(X, Y, I)
    elif kind == "semi":
        XU = tarr(case, case["XU"]).reshape(len(case["XU"]), X.shape[1])
        m.fit(X, Y, XU)
    elif kind == "knn":
        vi = [v % n for v in case["val_idx"]]
        XV, YV = tarr(case, [case["X"][v] for v in vi]), iarr([case["Y"][v] for v in vi])
        if case.get("train_ids"):
            tid = case["train_ids"]
            m.fit(X, Y, XV, YV, iarr(tid[:n]), iarr([tid[v] for v in vi]))
        else:
            m.fit(X, Y, XV, YV)
    else:
        m.fit(X, Y, I)
        if kind == "unsup_prop":
            m.propagate_labels()


def second_world(case):
    """The data of the refit: the same rows in another order, a few of them moved."""
    X2, Y2 = case.get("X2"), case.get("Y2")
    c2 = dict(case)
    c2["X"], c2["Y"] = X2, Y2
    return c2


def do_predict(m, case, rows, batch):
    Xq = tarr(case, [rows[q] for q in batch])
    if case["pre"]:
        return m.predict(Xq, iarr([pool_index(case, q) for q in batch]))
    if case.get("query_idx"):
        qi = case["query_idx"]
        return m.predict(Xq, iarr([qi[q % len(qi)] for q in batch]))
    return m.predict(Xq)


def unpack(case, res, blen):
    """Per-position (label, cluster) tuples from a predict result."""
    if case["kind"] in ("unsup", "unsup_prop"):
        preds, clusters = res
        return [(int(p), int(c)) for p, c in zip(preds, clusters)]
    return [(int(p),) for p in res]


class ForkedReference:
    """Singleton reference predictions computed in a child forked right after the live model
    was fitted - before any other model exists and before the history starts - so that state
    shared between instances (class attributes, module globals) cannot make the reference wrong
    in the same way as the live model."""

    def __init__(self, fn):
        import json as _json

        self._json = _json
        c2p_r, c2p_w = os.pipe()
        p2c_r, p2c_w = os.pipe()
        pid = os.fork()
        if pid == 0:
            try:
                os.close(c2p_r)
                os.close(p2c_w)
                rf, wf = os.fdopen(p2c_r, "r"), os.fdopen(c2p_w, "w")
                for line in rf:
                    q = _json.loads(line)
                    try:
                        rep = {"ok": list(fn(q))}
                    except Exception as exc:  # noqa: BLE001
                        rep = {"raises": type(exc).__name__}
                    wf.write(_json.dumps(rep) + "\n")
                    wf.flush()
            finally:
                os._exit(0)
        os.close(c2p_w)
        os.close(p2c_r)
        self.pid = pid
        self.rf, self.wf = os.fdopen(c2p_r, "r"), os.fdopen(p2c_w, "w")

    def ask(self, q):
        self.wf.write(self._json.dumps(q) + "\n")
        self.wf.flush()
        line = self.rf.readline()
        return self._json.loads(line) if line else {"raises": "ReferenceProcessDied"}

    def close(self):
        try:
            self.wf.close()
            self.rf.close()
        except Exception:  # noqa: BLE001
            pass
        try:
            os.waitpid(self.pid, 0)
        except Exception:  # noqa: BLE001
            pass


class Faulty:
    def __init__(self, fn, n):
        self.fn = fn
        self.left = n
        self.calls = 0

    def __call__(self, x, y):
        self.calls += 1
        self.left -= 1
        if self.left < 0:
            raise SimAbort("injected abort at distance evaluation %d" % self.calls)
        return self.fn(x, y)


def run_case(case):
    out = Outcome()
    scratch = None
    try:
        try:
            m, rows = lib_call("fit", build_model, case, ood=lambda exc, site: True)
        except Stop:
            raise OutOfDomain()
        log = EventLog()
        pristine = copy.deepcopy(m)
        kind = case["kind"]
        n = len(case["X"])
        best_k = getattr(m.subgraph, "best_k", 0)
        L = {}
        raises = {}
        positions = {}
        observed = []
        states = set()
        norm = []
        facts = dict(kind=kind, metric_class=metric_class(case["metric"]), pre=case["pre"])

        def ref(q):
            if oracle is not None and q not in L and q not in raises:
                rep = oracle.ask(q)
                if "ok" in rep:
                    L[q] = tuple(rep["ok"])
                else:
                    raises[q] = rep["raises"]
                return L.get(q)
            if q not in L and q not in raises:
                p = copy.deepcopy(pristine)
                try:
                    r = do_predict(p, case, rows, [q])
                    L[q] = unpack(case, r, 1)[0]
                except Exception as exc:  # noqa: BLE001 - consistently failing sample: no verdict
                    raises[q] = type(exc).__name__
            return L.get(q)

        oracle = None
        if case.get("bystander") and case.get("X2") and not case["pre"]:
            oracle = ForkedReference(lambda q_: unpack(case, do_predict(copy.deepcopy(pristine), case, rows, [q_]), 1)[0])
            bump(out.probes, "reference_computed_in_isolated_process")
        other = None
        if case.get("bystander") and case.get("X2") and not case["pre"]:
            try:
                other, _ = build_model(second_world(case))
                bump(out.probes, "second_model_alive")
            except Exception:  # noqa: BLE001
                other = None
        cur_world = case  # the data the live model was last fitted on
        fit_k = (int(m.max_k), int(getattr(m, "min_k", 1))) if hasattr(m, "max_k") else None

        def verify_history():
            # ---- history check: every label ever returned for q equals the singleton reference
            for k, pos, q, got_q, batch, after_abort in observed:
                exp = ref(q)
                if exp is None:
                    bump(out.probes, "query_raises_consistently")
                    continue
                if got_q != exp:
                    what = "label" if got_q[0] != exp[0] else "cluster"
                    raise Stop(
                        violation(
                            "prediction-not-single-valued",
                            "pool sample %d %r predicted as %r at position %d of batch %s (op #%d), but as %r when predicted alone by a pristine copy of the fitted model (%s, metric %s, n_train %d, best_k %s)"
                            % (q, rows[q], got_q, pos, list(batch), k, exp, kind, case["metric"], n, best_k),
                            what=what,
                            position_nonzero=pos > 0,
                            after_abort=after_abort,
                            **facts,
                        )
                    )

        for k, op in enumerate(case["ops"]):
            kindop = op[0]
            if kindop == "bystander":
                if other is None:
                    continue
                out.steps += 1
                try:
                    do_predict(other, case, rows, [q % len(rows) for q in op[1]])
                except Exception:  # noqa: BLE001 - the other model's own outcome is not the subject
                    pass
                log.add("bystander", tuple(op[1]))
                norm.append(("bystander", tuple(op[1])))
                continue
            if kindop == "propagate":
                if kind != "unsup":
                    continue
                verify_history()  # everything so far was predicted before the labels were propagated
                # same data and same k range as the live model's last fit (knob ops since then do
                # not concern a model that is not fitted again)
                ref_case = dict(cur_world, kind="unsup_prop")
                if fit_k is not None:
                    ref_case["max_k"], ref_case["min_k"] = fit_k
                try:
                    ref_m, _ = build_model(ref_case)  # fit + propagate on a fresh object, no predict before
                except Exception:  # noqa: BLE001
                    continue
                out.steps += 1
                try:
                    m.propagate_labels()
                except Exception as exc:  # noqa: BLE001
                    lib_call("propagate_labels on a used model", _reraise, exc)
                pristine = copy.deepcopy(ref_m)
                if oracle is not None:
                    oracle.close()
                    oracle = None
                L.clear()
                raises.clear()
                del observed[:]
                positions.clear()
                bump(out.probes, "labels_propagated_after_predictions")
                log.add("propagate")
                norm.append(("propagate",))
                continue
            if kindop == "refit":
                if case["pre"] or not case.get("X2"):
                    continue
                verify_history()  # everything observed so far belongs to the first fit
                c2 = second_world(case)
                # the k range is part of the object's configuration: earlier "knob" ops may have
                # changed it, and a later fit legitimately uses the current values
                if hasattr(m, "max_k"):
                    if m.max_k > len(c2["X"]) - 1:
                        continue  # outside the valid worlds (k <= n_train - 1)
                    c2["max_k"] = int(m.max_k)
                    if hasattr(m, "min_k"):
                        c2["min_k"] = int(m.min_k)
                try:
                    ref_m, _ = build_model(c2)
                except Exception:  # noqa: BLE001 - a second world the library cannot fit: leave it
                    continue
                out.steps += 1
                try:
                    fit_existing(m, c2)
                except Exception as exc:  # noqa: BLE001
                    lib_call("refit of a used model", _reraise, exc)
                cur_world = c2
                if hasattr(m, "max_k"):
                    fit_k = (int(m.max_k), int(getattr(m, "min_k", 1)))
                pristine = copy.deepcopy(ref_m)  # reference: a FRESH object fitted on the same data
                if oracle is not None:
                    oracle.close()
                    oracle = None
                L.clear()
                raises.clear()
                del observed[:]
                positions.clear()
                best_k = getattr(m.subgraph, "best_k", 0)
                bump(out.probes, "model_object_refitted_mid_history")
                log.add("refit")
                norm.append(("refit",))
                continue
            if kindop == "predict_int":
                # an integer-typed batch of whole-number rows: a legal call whose own labels are not
                # compared (other dtype, other arithmetic) but which must leave the model as it was
                batch = [q % len(rows) for q in op[1]]
                if case["pre"] or not batch or any(not (abs(v) < 1e15 and float(v).is_integer()) for q in batch for v in rows[q]):
                    continue
                Xi = np.array([[int(v) for v in rows[q]] for q in batch], dtype=np.int64)
                out.steps += 1
                try:
                    m.predict(Xi, iarr([case["query_idx"][q % len(case["query_idx"])] for q in batch])) if case.get("query_idx") else m.predict(Xi)
                    bump(out.probes, "integer_typed_batch_predicted")
                except Exception:  # noqa: BLE001 - its own outcome is not the subject here
                    pass
                log.add("predict_int", tuple(batch))
                norm.append(("predict_int", tuple(batch)))
                continue
            if kindop in ("predict", "abort"):
                batch = [q % len(rows) for q in op[1]]
                if not batch:
                    continue
                out.steps += 1
                if kindop == "abort":
                    if case["pre"]:
                        continue
                    real = m.distance_fn
                    f = Faulty(real, op[2])
                    m.distance_fn = f
                    try:
                        res = lib_call("predict (abort scheduled)", do_predict, m, case, rows, batch)
                        aborted = False
                    except SimAbort:
                        aborted = True
                        bump(out.faults, "aborted_predict")
                    finally:
                        m.distance_fn = real
                    bump(out.seams, "distance_fn_wrapper_calls", f.calls)
                    log.add("abort", tuple(batch), op[2], aborted)
                    norm.append(("abort", tuple(batch), aborted))
                    if aborted:
                        continue
                else:
                    try:
                        res = do_predict(m, case, rows, batch)
                    except Exception as exc:  # noqa: BLE001
                        for q in batch:
                            ref(q)
                        if any(q in raises for q in batch):
                            bump(out.probes, "query_raises_consistently")
                            continue
                        lib_call("predict", _reraise, exc)
                    norm.append(("predict", tuple(batch)))
                got = unpack(case, res, len(batch))
                if len(got) != len(batch):
                    raise Stop(violation("result-length", "predict returned %d labels for a batch of %d" % (len(got), len(batch)), **facts))
                log.add("predict", tuple(batch), tuple(got))
                if len(batch) > n:
                    bump(out.probes, "batch_longer_than_training_set")
                if len(set(batch)) < len(batch):
                    bump(out.probes, "duplicates_inside_one_batch")
                for pos, q in enumerate(batch):
                    if case["pool"][q][0] == "train":
                        bump(out.probes, "query_equals_training_sample")
                    if 1 <= pos < n:
                        bump(out.probes, "position_ge1_is_valid_training_index")
                    # verdicts are taken after the history (below): computing the reference in
                    # between would itself be a call that could perturb hidden library state
                    observed.append((k, pos, q, got[pos], tuple(batch), out.faults.get("aborted_predict", 0) > 0))
                    ps = positions.setdefault(q, set())
                    ps.add(pos)
                    states.add(h64((kind, n, best_k, len(batch), tuple(sorted(ps)))))
                if out.faults.get("aborted_predict", 0):
                    bump(out.probes, "successful_predict_after_abort")
            elif kindop == "getdist":
                out.steps += 1
                lib_call("get_distances", m.get_distances, bool((k + n) % 2))
                log.add("getdist")
                norm.append(("getdist",))
            elif kindop == "knob":
                out.steps += 1
                try:
                    if op[1] == "max_k" and hasattr(m, "max_k"):
                        m.max_k = max(op[2], getattr(m, "min_k", 1))
                    elif op[1] == "min_k" and hasattr(m, "min_k"):
                        m.min_k = max(1, min(op[2], m.max_k))
                    elif op[1] == "distance_same":
                        m.distance = m.distance
                    elif op[1] == "mark_nodes" and kind in ("supervised", "semi"):
                        m.subgraph.mark_nodes(op[2] % len(m.subgraph.nodes))
                    elif op[1] == "accuracy":
                        B.general.opf_accuracy_per_label(iarr(case["Y"]), iarr(case["Y"]))
                    bump(out.probes, "irrelevant_public_call_between_predictions")
                except Exception as exc:  # noqa: BLE001
                    lib_call("knob " + op[1], _reraise, exc)
                log.add("knob", op[1], op[2])
                norm.append(("knob", op[1]))
            elif kindop == "save":
                out.steps += 1
                if scratch is None:
                    scratch = tempfile.mkdtemp(prefix="verif-c09-", dir="/dev/shm" if os.path.isdir("/dev/shm") else None)
                lib_call("save", m.save, os.path.join(scratch, "m.pkl"))
                log.add("save")
                norm.append(("save",))
        verify_history()
        out.digest = log.hexdigest()
        out.hist = h64((kind, case["metric"], n, case["pre"], tuple(norm)))
        out.nontrivial = any(len(p) >= 2 for p in positions.values())
        out.states = states
        bump(out.probes, "model_" + kind)
        if case.get("dtype"):
            bump(out.probes, "non_float64_features")
        if case.get("layout"):
            bump(out.probes, "non_contiguous_arrays")
        if case.get("big_labels"):
            bump(out.probes, "labels_beyond_int32")
        if case.get("train_ids") and not case["pre"]:
            bump(out.probes, "training_identifiers_unlike_positions")
        if case.get("free_matrix_seed") is not None:
            bump(out.probes, "distance_matrix_unrelated_to_features")
        if any(p_[0] == "row" and any(abs(v) >= 1e150 for v in p_[1]) for p_ in case["pool"]):
            bump(out.probes, "query_of_overflowing_magnitude")
        if case.get("query_idx"):
            bump(out.probes, "index_arrays_passed_without_precomputed_distances")
    except Stop as s:
        out.violation = s.violation
    except OutOfDomain:
        out.ood = 1
    finally:
        try:
            if oracle is not None:
                oracle.close()
        except NameError:
            pass
        if scratch:
            shutil.rmtree(scratch, ignore_errors=True)
    return out


def _reraise(exc):
    raise exc


# --------------------------------------------------------------------------- shrink


def shrink(case):
    ops = case["ops"]
    # shorter batches
    for k, op in enumerate(ops):
        if op[0] in ("predict", "abort") and len(op[1]) > 1:
            for j in range(len(op[1])):
                c = dict(case)
                nb = op[1][:j] + op[1][j + 1 :]
                c["ops"] = ops[:k] + [[op[0], nb] + op[2:]] + ops[k + 1 :]
                yield c
    # abort -> plain predict
    for k, op in enumerate(ops):
        if op[0] == "abort":
            c = dict(case)
            c["ops"] = ops[:k] + [["predict", op[1]]] + ops[k + 1 :]
            yield c
    # drop unlabeled rows
    for i in range(len(case.get("XU", []))):
        c = dict(case)
        c["XU"] = case["XU"][:i] + case["XU"][i + 1 :]
        yield c
    # drop a training row that no pool entry refers to
    n = len(case["X"])
    used = {p[1] % n for p in case["pool"] if p[0] == "train"} | {v % n for v in case.get("val_idx", [])}
    for i in range(n - 1, -1, -1):
        if i in used or n <= 2:
            continue
        c = dict(case)
        c["X"] = case["X"][:i] + case["X"][i + 1 :]
        c["Y"] = case["Y"][:i] + case["Y"][i + 1 :]
        c["pool"] = [[p[0], (p[1] % n) - (1 if (p[1] % n) > i else 0)] if p[0] == "train" else p for p in case["pool"]]
        if "val_idx" in case:
            c["val_idx"] = [(v % n) - (1 if (v % n) > i else 0) for v in case["val_idx"]]
        yield c
    for key in ("max_k", "min_k"):
        if case.get(key, 1) > 1:
            c = dict(case)
            c[key] = case[key] - 1
            yield c
    # materialise pool entries so unreferenced structure disappears
    if any(p[0] == "dup" for p in case["pool"]):
        rows = pool_rows(case)
        c = dict(case)
        c["pool"] = [p if p[0] == "train" else ["row", rows[i]] for i, p in enumerate(case["pool"])]
        yield c


def sample_repr(case):
    return case
