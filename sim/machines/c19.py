"""C19 - a saved and re-loaded model behaves identically to the original (DESIGN.md 4.7).

Durable state = pickle files in a per-run scratch directory; volatile state = Python objects.
The scheduler interleaves save / load-into-a-differently-constructed-model / re-save of loaded
generations / refit of the original / overwrite of a path / restart (load + predict in a fresh
interpreter that sees only the file), and injects failed ``open`` and failed/torn ``write``
faults into ``save`` through the ``open`` name seen by ``opfython.core.opf``.

Reference model: per path, the snapshot (deep copy) of the model whose save to that path last
*completed*.  A load must reproduce that snapshot's state digest and its predictions; a save,
failed or not, must leave the saved object bit-identical.
"""

import atexit
import copy
import errno
import json
import os
import shutil
import subprocess
import sys
import tempfile

import numpy as np

from .. import bootstrap as B
from ..common import ALL_METRICS, OutOfDomain, Stop, arr, dig, first_diff, iarr, lib_call, metric_class, model_state
from ..engine import EventLog, Outcome, bump, h64, violation
from . import c09

PID = "C19"
RULE = (
    "Each run fits one model (four kinds incl. unsupervised with label propagation, metric out of all 47, on-the-fly or"
    " pre-computed distances, k ranges, n_train 2-14) and executes a seeded history of 4-20 operations over 3 reusable"
    " paths: save (optionally with an injected open/write fault), load into a fresh model built with other constructor"
    " arguments, re-save of a loaded generation, refit / further use / label propagation of the original between saves"
    " (15 % of the worlds train on float32, int64 or uint8 features), restart (fresh interpreter, other"
    " PYTHONHASHSEED and cwd, loads the file and predicts). Non-trivial: a load went into a model constructed with"
    " different arguments, or through a restart, or a fault fired before a later successful save. distinct = distinct"
    " (kind, metric, pre, op kinds and slots) sequences by 64-bit hash."
)
STATE_MEASURE = "distinct (kind, metric, pre-computed?, generation depth of the loaded object, a fault preceded the save?) tuples at a checked load"
REAL = ["OPF.save/OPF.load (pickle), the four model classes, Subgraph/KNNSubgraph/Node, numba-jitted metrics - current working tree", "real files in a per-run scratch directory", "restart arm: a real second interpreter process"]
STUBBED = ["fault ops only: the name `open` in opfython.core.opf is bound to a wrapper that raises EACCES/ENOSPC at open or at the k-th write (optionally after a partial write); removed again after the op", "logging disabled"]
ASSUMPTIONS = [
    "After a save that failed after the file was opened, the content of that path is unspecified (the property gives the library no obligation for it); the path is not loaded again until a later save to it completes.",
    "State digest fields: distance name and function name, pre-computed flag and matrix, k range, every node field, conquest order, trained flag, KNN subgraph scalars; floats by bit pattern.",
    "Predictions are compared on every sample of the run's query pool.",
]

N_SLOTS = 3


EXPECTED_PROBES = ['original_compared_with_its_saved_copy', 'flag_switched_while_the_model_holds_a_matrix', 'matrix_assigned_to_a_loaded_model', 'model_constructed_from_a_distance_file', 'distance_file_of_the_model_rewritten', 'loaded_model_poked_and_compared', 'distance_fn_replaced_through_setter', 'receiver_constructed_with_its_own_distance_file', 'subgraph_poked_between_saves', 'labels_propagated_between_saves', 'non_float64_training_data', 'load_checked', 'load_of_save_made_after_a_failed_save', 'loaded_into_differently_constructed_model', 'matrix_pairs_run', 'original_refitted_after_save', 'original_used_between_saves', 'path_overwritten', 'prediction_raises_consistently', 'refit_raised', 'restart_checked_', 'save_raised_and_original_compared', 'save_returned_normally_although_fault_fired', 'scheduled_fault_did_not_fire', 'second_generation_load', 'successful_save_after_failed_save']

SLOW_ARMS = ("restart", "matrix")


def arms(tier):
    if tier == "thorough":
        return [("plain", 400_000), ("faults", 280_000), ("restart", 12_000), ("matrix", 47 * 5 * 8)]
    return [("plain", 18_000), ("faults", 12_000), ("restart", 500), ("matrix", 47 * 5)]


def hist_slice(tier):
    return 1


def gen_case(rng, arm, tier, k=0):
    base = c09.gen_case(rng, "pre" if rng.random() < 0.3 else "fly", tier)
    base.pop("ops")
    if arm == "matrix":
        # sweep (kind, metric) systematically: the index comes from the run's own PRNG stream
        idx = k % (47 * 5)
        kind = c09.KINDS[idx % 5]
        metric = ALL_METRICS[idx // 5]
        if base["kind"] != kind or base["metric"] != metric:
            # regenerate a world for this pair with the same generator
            for _ in range(200):
                cand = c09.gen_case(rng, "fly", tier)
                if cand["kind"] == kind:
                    cand.pop("ops")
                    base = cand
                    break
            base["kind"] = kind
            base["metric"] = metric
            if metric not in c09.REAL_DOMAIN and base["style"] in ("generic",):
                base["X"] = [[abs(v) + 0.05 for v in row] for row in base["X"]]
                base["pool"] = [p if p[0] != "row" else ["row", [abs(v) + 0.05 for v in p[1]]] for p in base["pool"]]
                if "XU" in base:
                    base["XU"] = [[abs(v) + 0.05 for v in row] for row in base["XU"]]
    if arm in ("plain", "faults", "restart") and rng.random() < 0.15:
        # training data that is not float64 (integer / single-precision features)
        base["dtype"] = rng.choice(B.DTYPES)
        base["metric"] = rng.choice(B.DTYPE_METRICS)
        base["pre"] = False
        small = lambda rows: [[float(int(abs(v)) % 4) for v in r] for r in rows]  # noqa: E731
        base["X"] = small(base["X"])
        base["pool"] = [p if p[0] != "row" else ["row", [float(int(abs(v)) % 4) for v in p[1]]] for p in base["pool"]]
        if "XU" in base:
            base["XU"] = small(base["XU"])
    if base.get("pre") and rng.random() < 0.5:
        base["pre_from_file"] = rng.choice(("plain", "replace"))
    n = len(base["X"])
    # second data set for "refit"
    base["X2"] = [list(r) for r in base["X"]]
    rng.shuffle(base["X2"])
    base["Y2"] = list(base["Y"])
    ops = []
    saved = set()
    gens = 0
    for _ in range(rng.randint(4, 20)):
        r = rng.random()
        if r < 0.30 or not saved:
            fault = None
            if arm == "faults" and rng.random() < 0.45:
                fault = rng.choice((["open", "EACCES"], ["open", "ENOSPC"], ["write", 1, "ENOSPC", 0], ["write", 1, "EIO", 1], ["write", 2, "ENOSPC", 1], ["write", 1, "ENOSPC", 1]))
            slot = rng.randrange(N_SLOTS)
            ops.append(["save", slot, fault])
            if fault is None:
                saved.add(slot)
        elif r < 0.60:
            ops.append(["load", rng.choice(sorted(saved)), rng.randrange(1 << 16)])
            gens += 1
        elif r < 0.72 and gens:
            slot = rng.randrange(N_SLOTS)
            ops.append(["resave", rng.randrange(gens), slot])
            saved.add(slot)
        elif r < 0.78:
            ops.append(["refit"])
        elif r < 0.84:
            if base["kind"] in ("knn", "unsup", "unsup_prop") and rng.random() < 0.3:
                # public calls on the model's subgraph between saves: whatever state results,
                # a save/load must reproduce it
                ops.append(["poke", rng.choice(("create_arcs", "destroy_arcs", "eliminate_maxima_height", "create_arcs", "calculate_pdf", "mark_nodes")), rng.randint(1, 4)])
            elif rng.random() < 0.15:
                # the metric function is replaced through the public setter (name and function disagree)
                ops.append(["set_fn", rng.randrange(47)])
            elif base.get("pre") and rng.random() < 0.4:
                ops.append(["set_flag"])  # pre_computed_distance switched through the public property
            elif base.get("pre_from_file") and rng.random() < 0.5:
                ops.append(["rewrite_dfile"])  # the distance file the model was built from changes on disk
            elif gens and rng.random() < 0.3:
                ops.append(["poke_loaded", rng.randrange(gens), rng.choice(("create_arcs", "destroy_arcs", "calculate_pdf", "set_pre", "set_pre")), rng.randint(1, 4)])
            elif base["kind"] in ("unsup", "unsup_prop") and rng.random() < 0.5:
                ops.append(["use", [rng.randrange(len(base["pool"])) for _ in range(rng.randint(1, 3))]])
                ops.append(["propagate"])
                ops.append(["save", rng.randrange(N_SLOTS), None])
                saved.add(ops[-1][1])
            else:
                ops.append(["use", [rng.randrange(len(base["pool"])) for _ in range(rng.randint(1, 4))]])
        elif r < 0.90 and gens:
            ops.append(["check", rng.randrange(gens)])
        elif arm == "restart":
            ops.append(["restart", rng.choice(sorted(saved))])
        else:
            ops.append(["load", rng.choice(sorted(saved)), rng.randrange(1 << 16)])
            gens += 1
    if arm in ("restart", "matrix") and not any(o[0] == "restart" for o in ops):
        if not saved:
            ops.append(["save", 0, None])
            saved.add(0)
        ops.append(["restart", rng.choice(sorted(saved))])
    base["ops"] = ops
    return base


# --------------------------------------------------------------------------- fault seam


class FaultyFile:
    def __init__(self, f, k, err, partial, stats):
        self._f = f
        self._k = k
        self._err = err
        self._partial = partial
        self._stats = stats

    def write(self, data):
        self._k -= 1
        if self._k == 0:
            if self._partial:
                self._f.write(bytes(data)[: max(1, len(data) // 2)])
                self._f.flush()
            self._stats["fired"] = "write"
            raise OSError(getattr(errno, self._err), "injected %s at write" % self._err)
        return self._f.write(data)

    def __getattr__(self, name):
        return getattr(self._f, name)

    def __enter__(self):
        return self

    def __exit__(self, *a):
        self._f.close()
        return False


def make_faulty_open(fault, stats):
    def faulty_open(file, mode="r", *a, **kw):
        stats["calls"] = stats.get("calls", 0) + 1
        if fault[0] == "open":
            stats["fired"] = "open"
            raise OSError(getattr(errno, fault[1]), "injected %s at open" % fault[1])
        f = open(file, mode, *a, **kw)
        return FaultyFile(f, fault[1], fault[2], fault[3], stats)

    return faulty_open


# --------------------------------------------------------------------------- restart server

_SERVER = None


def _server():
    global _SERVER
    if _SERVER is not None and _SERVER.poll() is None and _SERVER._owner == os.getpid():
        return _SERVER
    env = dict(os.environ)
    env["PYTHONHASHSEED"] = "4242"
    env["VERIF_REPO"] = B.REPO
    cwd = "/dev/shm" if os.path.isdir("/dev/shm") else tempfile.gettempdir()  # not the checker's cwd
    p = subprocess.Popen(
        [sys.executable, os.path.join(B.VERIF_DIR, "sim", "restart_server.py")],
        stdin=subprocess.PIPE, stdout=subprocess.PIPE, stderr=subprocess.DEVNULL, env=env, cwd=cwd, text=True, bufsize=1,
    )
    p._owner = os.getpid()
    p._cwd = cwd
    _SERVER = p
    return p


def restart_query(req):
    """One request to the fresh-interpreter server.  Talking to it is harness work, not a
    library call: the per-run wall guard (meant for hangs inside the library) is suspended and
    a separate, generous limit applies, so a slow start of the second interpreter on a loaded
    machine is never mistaken for a hang."""
    import select
    import signal

    old = signal.setitimer(signal.ITIMER_REAL, 0)
    try:
        p = _server()
        p.stdin.write(json.dumps(req) + "\n")
        p.stdin.flush()
        ready, _, _ = select.select([p.stdout], [], [], 900.0)
        if not ready:
            raise RuntimeError("restart server did not answer within 900 s")
        line = p.stdout.readline()
        if not line:
            raise RuntimeError("restart server died")
        return json.loads(line)
    finally:
        if old[0] > 0:
            signal.setitimer(signal.ITIMER_REAL, max(old[0], 5.0))


def _close_server():
    global _SERVER
    if _SERVER is not None and getattr(_SERVER, "_owner", None) == os.getpid():
        try:
            _SERVER.stdin.close()
            _SERVER.wait(timeout=5)
        except Exception:  # noqa: BLE001
            _SERVER.kill()
    _SERVER = None


atexit.register(_close_server)


# --------------------------------------------------------------------------- run


def fresh_model(case, variant, scratch=None):
    """A freshly constructed model of the same kind whose constructor arguments differ
    (other metric, other k range, sometimes its own pre-computed distance file)."""
    kind = case["kind"]
    metric = ALL_METRICS[variant % len(ALL_METRICS)]
    k = 1 + (variant >> 6) % 4
    pre = None
    if scratch is not None and (variant >> 9) % 4 == 0:
        pre = os.path.join(scratch, "receiver_distances.txt")
        if not os.path.exists(pre):
            n_ = len(case["X"]) + len(case["pool"]) + 2
            np.savetxt(pre, np.arange(n_ * n_, dtype=np.float64).reshape(n_, n_) % 7, delimiter=" ")
    if pre is not None:
        if kind == "supervised":
            return B.supervised_mod.SupervisedOPF(distance=metric, pre_computed_distance=pre), True
        if kind == "semi":
            return B.semi_mod.SemiSupervisedOPF(distance=metric, pre_computed_distance=pre), True
        if kind == "knn":
            return B.knn_mod.KNNSupervisedOPF(max_k=k, distance=metric, pre_computed_distance=pre), True
        lo = 1 + (variant >> 11) % 5
        return B.unsup_mod.UnsupervisedOPF(min_k=lo, max_k=lo + k, distance=metric, pre_computed_distance=pre), True
    if kind == "supervised":
        return B.supervised_mod.SupervisedOPF(distance=metric), metric != case["metric"]
    if kind == "semi":
        return B.semi_mod.SemiSupervisedOPF(distance=metric), metric != case["metric"]
    if kind == "knn":
        return B.knn_mod.KNNSupervisedOPF(max_k=k, distance=metric), True
    lo = 1 + (variant >> 11) % 5  # receivers whose own k range lies above/below the saved one
    return B.unsup_mod.UnsupervisedOPF(min_k=lo, max_k=lo + k, distance=metric), True


def predictions(m, case, rows):
    batch = list(range(len(rows)))
    res = c09.do_predict(m, case, rows, batch)
    return c09.unpack(case, res, len(batch))


class Snapshot:
    def __init__(self, model, gen_depth, after_fault):
        self.model = copy.deepcopy(model)
        self.state = model_state(model)
        self.digest = dig(self.state)
        self.preds = None
        self.raises = None
        self.depth = gen_depth
        self.after_fault = after_fault

    def expected(self, case, rows):
        if self.preds is None and self.raises is None:
            try:
                self.preds = predictions(copy.deepcopy(self.model), case, rows)
            except Exception as exc:  # noqa: BLE001 - consistently failing prediction: compare exception type
                self.raises = type(exc).__name__
        return self.preds


def run_case(case):
    out = Outcome()
    scratch = tempfile.mkdtemp(prefix="verif-c19-", dir="/dev/shm" if os.path.isdir("/dev/shm") else None)
    try:
        try:
            m, rows = lib_call("fit", c09.build_model, case, scratch, ood=lambda exc, site: True)
        except Stop:
            raise OutOfDomain()
        log = EventLog()
        if case.get("dtype", "float64") != "float64":
            bump(out.probes, "non_float64_training_data")
        if case.get("pre") and case.get("pre_from_file"):
            bump(out.probes, "model_constructed_from_a_distance_file")
        kind, metric = case["kind"], case["metric"]
        facts = dict(kind=kind, metric_class=metric_class(metric), pre=case["pre"])
        paths = [os.path.join(scratch, "slot%d.pkl" % i) for i in range(N_SLOTS)]
        files = [None] * N_SLOTS  # Snapshot of the last completed save, or None (never saved / unspecified)
        loaded = []  # (model, Snapshot it must equal)
        pending_fault = False
        norm = []
        states = set()
        refits = 0

        def check_equal(obj, snap, what):
            st = model_state(obj)
            if dig(st) != snap.digest:
                raise Stop(violation("loaded-state-differs", "%s: state differs from the saved model: %s (%s, metric %s)" % (what, first_diff(snap.state, st), kind, metric), **facts))
            exp = snap.expected(case, rows)
            try:
                got = predictions(obj, case, rows)
            except Exception as exc:  # noqa: BLE001
                if snap.raises == type(exc).__name__:
                    bump(out.probes, "prediction_raises_consistently")
                    return
                lib_call("predict on " + what, _reraise, exc)
            if exp is None:
                raise Stop(violation("loaded-predictions-differ", "%s predicts %s but the saved model raises %s" % (what, got, snap.raises), **facts))
            if got != exp:
                diff = [i for i in range(len(exp)) if got[i] != exp[i]]
                raise Stop(violation("loaded-predictions-differ", "%s: predictions differ from the saved model's on pool samples %s: %s vs %s" % (what, diff[:5], [got[i] for i in diff[:5]], [exp[i] for i in diff[:5]]), **facts))
            # predicting must not have changed what the digest covers except relevance flags
            bump(out.probes, "load_checked")

        def do_save(obj, slot, fault, who):
            nonlocal pending_fault
            before = model_state(obj)
            snap = Snapshot(obj, 0, pending_fault)
            stats = {}
            fired = None
            if fault is not None:
                B.opf_mod.open = make_faulty_open(fault, stats)
            try:
                try:
                    lib_call("save", obj.save, paths[slot]) if fault is None else obj.save(paths[slot])
                    completed = True
                except Exception as exc:  # noqa: BLE001
                    if fault is None or not stats.get("fired"):
                        lib_call("save", _reraise, exc)
                    completed = False
            finally:
                if fault is not None:
                    try:
                        del B.opf_mod.open
                    except AttributeError:
                        pass
            if fault is not None:
                bump(out.seams, "faulty_open_calls", stats.get("calls", 0))
                fired = stats.get("fired")
                if fired:
                    bump(out.faults, "save_%s_%s" % (fired, fault[1] if fired == "open" else fault[2]))
                    if fault[0] == "write" and fault[3]:
                        bump(out.faults, "torn_write")
                else:
                    bump(out.probes, "scheduled_fault_did_not_fire")
            after = model_state(obj)
            if after != before:
                raise Stop(
                    violation(
                        "save-altered-original",
                        "%s.save(slot %d%s) changed the saved object: %s" % (who, slot, (", injected fault %s" % fault) if fault else "", first_diff(before, after)),
                        failed_save=not completed,
                        **facts,
                    )
                )
            if completed and who == "original":
                # "predictions of the loaded model equal those of the original": the original itself
                # is asked too - a memo kept outside the object would make it differ from its own copy
                exp_o = snap.expected(case, rows)
                if exp_o is not None:
                    try:
                        got_o = predictions(obj, case, rows)
                    except Exception as exc:  # noqa: BLE001
                        lib_call("predict on the original after save", _reraise, exc)
                    if got_o != exp_o:
                        diff = [i for i in range(len(exp_o)) if got_o[i] != exp_o[i]]
                        raise Stop(violation("original-differs-from-its-saved-copy", "after save the original predicts %s on pool samples %s but a copy of it taken at save time (what the file holds) predicts %s" % ([got_o[i] for i in diff[:5]], diff[:5], [exp_o[i] for i in diff[:5]]), **facts))
                    bump(out.probes, "original_compared_with_its_saved_copy")
            if completed:
                files[slot] = snap
                if pending_fault:
                    bump(out.probes, "successful_save_after_failed_save")
                if fired:
                    bump(out.probes, "save_returned_normally_although_fault_fired")
            else:
                bump(out.probes, "save_raised_and_original_compared")
                pending_fault = True
                if fired == "write":
                    files[slot] = None  # content unspecified from now on
            return completed

        for k, op in enumerate(case["ops"]):
            kop = op[0]
            if kop == "save":
                out.steps += 1
                slot = op[1] % N_SLOTS
                if files[slot] is not None:
                    bump(out.probes, "path_overwritten")
                done = do_save(m, slot, op[2], "original")
                log.add("save", slot, op[2], done)
                norm.append(("save", slot, bool(op[2])))
            elif kop == "resave":
                if not loaded:
                    continue
                out.steps += 1
                obj, snap = loaded[op[1] % len(loaded)]
                slot = op[2] % N_SLOTS
                if files[slot] is not None:
                    bump(out.probes, "path_overwritten")
                do_save(obj, slot, None, "loaded generation")
                files[slot].depth = snap.depth + 1
                log.add("resave", op[1] % len(loaded), slot)
                norm.append(("resave", slot))
            elif kop == "load":
                slot = op[1] % N_SLOTS
                snap = files[slot]
                if snap is None:
                    continue
                out.steps += 1
                fresh, differs = fresh_model(case, op[2], scratch)
                if fresh.pre_computed_distance:
                    bump(out.probes, "receiver_constructed_with_its_own_distance_file")
                lib_call("load", fresh.load, paths[slot])
                check_equal(fresh, snap, "model loaded from slot %d (op #%d)" % (slot, k))
                loaded.append((fresh, snap))
                if differs:
                    bump(out.probes, "loaded_into_differently_constructed_model")
                    out.nontrivial = True
                if snap.depth >= 1:
                    bump(out.probes, "second_generation_load")
                if snap.after_fault:
                    bump(out.probes, "load_of_save_made_after_a_failed_save")
                    out.nontrivial = True
                states.add(h64((kind, metric, case["pre"], snap.depth, snap.after_fault)))
                log.add("load", slot, snap.digest)
                norm.append(("load", slot))
            elif kop == "check":
                if not loaded:
                    continue
                out.steps += 1
                obj, snap = loaded[op[1] % len(loaded)]
                # an older generation must still behave like the model it was loaded from,
                # whatever happened to files and to the original since
                exp = snap.expected(case, rows)
                if exp is not None:
                    got = predictions(obj, case, rows)
                    if got != exp:
                        raise Stop(violation("loaded-predictions-differ", "older loaded generation predicts %s, the model it was loaded from predicted %s" % (got, exp), **facts))
                norm.append(("check",))
            elif kop == "use":
                # the original keeps being used between saves (supervised predict sets relevance flags)
                out.steps += 1
                batch = [q % len(rows) for q in op[1]]
                try:
                    c09.do_predict(m, case, rows, batch)
                    bump(out.probes, "original_used_between_saves")
                except Exception:  # noqa: BLE001 - consistently failing predictions are compared at the loads
                    pass
                norm.append(("use",))
            elif kop == "rewrite_dfile":
                path = os.path.join(scratch, "model_distances.txt")
                if not os.path.exists(path):
                    continue
                out.steps += 1
                old = np.loadtxt(path, ndmin=2)
                np.savetxt(path, old * 3.0 + 2.0, delimiter=" ")
                bump(out.probes, "distance_file_of_the_model_rewritten")
                norm.append(("rewrite_dfile",))
            elif kop == "poke_loaded":
                if not loaded:
                    continue
                obj, snap = loaded[op[1] % len(loaded)]
                twin = copy.deepcopy(snap.model)
                out.steps += 1
                results = []
                for target in (obj, twin):
                    sg = target.subgraph
                    try:
                        if op[2] == "set_pre":
                            # a new batch arrives with its own distance matrix: assigned through the setter
                            cur = target.pre_distances
                            if cur is None:
                                raise LookupError("no matrix in use")
                            target.pre_distances = np.array(cur)[::-1, ::-1].copy() + float(op[3])
                        elif op[2] == "mark_nodes":
                            sg.mark_nodes(op[3] % len(sg.nodes))
                        elif op[2] == "destroy_arcs":
                            sg.destroy_arcs()
                        else:
                            kk = max(1, min(op[3], len(sg.nodes) - 1))
                            sg.create_arcs(kk, target.distance_fn, target.pre_computed_distance, target.pre_distances)
                            if op[2] == "calculate_pdf":
                                sg.calculate_pdf(kk, target.distance_fn, target.pre_computed_distance, target.pre_distances)
                        results.append("ok")
                    except Exception as exc:  # noqa: BLE001 - e.g. Subgraph has no create_arcs: both must agree
                        results.append(type(exc).__name__)
                if results[0] != results[1]:
                    raise Stop(violation("loaded-behaves-differently", "subgraph.%s on a loaded model: %s, on the model it was saved from: %s" % (op[2], results[0], results[1]), **facts))
                # (relevance flags are left out: the loaded object has been used for predictions
                # since it was loaded, its reference copy has not)
                if op[2] == "set_pre" and results[0] == "ok":
                    bump(out.probes, "matrix_assigned_to_a_loaded_model")
                st_a, st_b = model_state(obj, skip=("relevant",)), model_state(twin, skip=("relevant",))
                if st_a != st_b:
                    raise Stop(violation("loaded-behaves-differently", "after the same public call subgraph.%s the loaded model's state differs from the saved model's: %s" % (op[2], first_diff(st_b, st_a)), **facts))
                # the generation now is "snapshot + poke": later checks compare predictions with that
                new_snap = Snapshot(twin, snap.depth, snap.after_fault)
                loaded[op[1] % len(loaded)] = (obj, new_snap)
                exp2 = new_snap.expected(case, rows)
                if exp2 is not None:
                    try:
                        got2 = predictions(obj, case, rows)
                    except Exception as exc:  # noqa: BLE001
                        lib_call("predict on a loaded model after subgraph/setter call", _reraise, exc)
                    if got2 != exp2:
                        diff = [i for i in range(len(exp2)) if got2[i] != exp2[i]]
                        raise Stop(violation("loaded-behaves-differently", "after %s the loaded model predicts differently from the model it was saved from on pool samples %s" % (op[2], diff[:5]), **facts))
                bump(out.probes, "loaded_model_poked_and_compared")
                norm.append(("poke_loaded", op[2]))
            elif kop == "set_flag":
                if not case["pre"]:
                    continue
                out.steps += 1
                m.pre_computed_distance = not m.pre_computed_distance
                bump(out.probes, "flag_switched_while_the_model_holds_a_matrix")
                norm.append(("set_flag",))
            elif kop == "set_fn":
                if case["pre"] or case.get("dtype", "float64") != "float64":
                    continue
                out.steps += 1
                m.distance_fn = B.distance.DISTANCES[ALL_METRICS[op[1] % 47]]
                bump(out.probes, "distance_fn_replaced_through_setter")
                norm.append(("set_fn", op[1] % 47))
            elif kop == "poke":
                sg = m.subgraph
                if kind not in ("knn", "unsup", "unsup_prop") or sg is None:
                    continue
                out.steps += 1
                try:
                    if op[1] == "create_arcs":
                        kk = max(1, min(op[2], len(sg.nodes) - 1))
                        sg.create_arcs(kk, m.distance_fn, m.pre_computed_distance, m.pre_distances)
                    elif op[1] == "destroy_arcs":
                        sg.destroy_arcs()
                    elif op[1] == "mark_nodes":
                        sg.mark_nodes(op[2] % len(sg.nodes))
                    elif op[1] == "calculate_pdf":
                        kk = max(1, min(op[2], len(sg.nodes) - 1))
                        sg.create_arcs(kk, m.distance_fn, m.pre_computed_distance, m.pre_distances)
                        sg.calculate_pdf(kk, m.distance_fn, m.pre_computed_distance, m.pre_distances)
                    else:
                        sg.eliminate_maxima_height(float(op[2]))
                    bump(out.probes, "subgraph_poked_between_saves")
                except Exception:  # noqa: BLE001 - the poke is only a way to reach more states
                    pass
                norm.append(("poke", op[1]))
            elif kop == "propagate":
                if kind not in ("unsup", "unsup_prop"):
                    continue
                out.steps += 1
                try:
                    m.propagate_labels()
                    bump(out.probes, "labels_propagated_between_saves")
                except Exception:  # noqa: BLE001
                    pass
                norm.append(("propagate",))
            elif kop == "refit":
                out.steps += 1
                refits += 1
                X2, Y2 = c09.tarr(case, case["X2"]), c09.lab(case, case["Y2"])
                try:
                    if kind == "supervised":
                        m.fit(X2, Y2, iarr(list(range(len(X2)))) if case["pre"] else None)
                    elif kind == "semi":
                        m.fit(X2, Y2, c09.tarr(case, case.get("XU", [])).reshape(len(case.get("XU", [])), X2.shape[1]))
                    elif kind == "knn":
                        continue
                    else:
                        m.fit(X2, Y2, iarr(list(range(len(X2)))) if case["pre"] else None)
                except Exception:  # noqa: BLE001 - refit is only a way to mutate the original; its success is not C19's subject
                    bump(out.probes, "refit_raised")
                    continue
                bump(out.probes, "original_refitted_after_save")
                log.add("refit")
                norm.append(("refit",))
            elif kop == "restart":
                slot = op[1] % N_SLOTS
                snap = files[slot]
                if snap is None:
                    continue
                out.steps += 1
                exp = snap.expected(case, rows)
                req = {"path": paths[slot], "kind": kind, "pre": case["pre"], "rows": rows, "dtype": case.get("dtype", "float64"), "idx": [c09.pool_index(case, q) for q in range(len(rows))] if case["pre"] else []}
                rep = restart_query(req)
                bump(out.faults, "restart_fresh_interpreter")
                out.nontrivial = True
                if "error" in rep:
                    if rep.get("stage") == "predict" and snap.raises == rep.get("type"):
                        bump(out.probes, "prediction_raises_consistently")
                    else:
                        raise Stop(violation("restart-raised:%s" % rep.get("type"), "fresh interpreter failed at %s of slot %d: %s" % (rep.get("stage"), slot, rep["error"][-300:]), stage=rep.get("stage"), **facts))
                else:
                    if rep["digest"] != snap.digest:
                        raise Stop(violation("loaded-state-differs", "fresh interpreter: state digest of the loaded model differs from the saved model (%s, metric %s): %s" % (kind, metric, rep.get("first_fields")), restart=True, **facts))
                    got = [tuple(x) for x in rep["preds"]]
                    if exp is not None and got != exp:
                        raise Stop(violation("loaded-predictions-differ", "fresh interpreter predicts %s, the saved model predicted %s" % (got, exp), restart=True, **facts))
                    bump(out.probes, "restart_checked_" + ("plain_python_metric" if metric == "jaccard" else ("decorated_wrapper_metric" if metric_class(metric) == "decorated" else "jitted_metric")))
                log.add("restart", slot, snap.digest)
                norm.append(("restart", slot))
        if case.get("arm") == "matrix":
            bump(out.probes, "matrix_pairs_run")
            states.add(h64(("pair", kind, metric)))
        out.digest = log.hexdigest()
        out.hist = h64((kind, metric, case["pre"], tuple(norm)))
        out.states = states
    except Stop as s:
        out.violation = s.violation
    except OutOfDomain:
        out.ood = 1
    finally:
        try:
            del B.opf_mod.open
        except AttributeError:
            pass
        shutil.rmtree(scratch, ignore_errors=True)
    return out


def _reraise(exc):
    raise exc


def shrink(case):
    ops = case["ops"]
    for k, op in enumerate(ops):
        if op[0] == "save" and op[2] is not None:
            c = dict(case)
            c["ops"] = ops[:k] + [["save", op[1], None]] + ops[k + 1 :]
            yield c
    for c in c09.shrink(dict(case, ops=[])):
        c = dict(c)
        c["ops"] = ops
        if "X2" in case:
            c["X2"] = c["X"]
            c["Y2"] = c["Y"]
        yield c
    if len(case["pool"]) > 1:
        c = dict(case)
        c["pool"] = case["pool"][:-1]
        if not any(p[0] == "dup" for p in c["pool"]):
            yield c


def sample_repr(case):
    return case
