"""C18 - split / merge / load / parse / convert preserve every sample (DESIGN.md 4.6).

In-family parts: ``split`` reseeds and consumes the *process-global* NumPy PRNG, so its
determinism is a statement over arbitrary PRNG histories (fault kind "PRNG history": the
scheduler consumes values from, and reseeds, the global generator between any two calls);
the converter/loader pipeline is write-then-read through real files in a per-run scratch
directory.  Reference model: the in-memory data set.
"""

import json
import os
import shutil
import random
import struct
import tempfile
from fractions import Fraction

import numpy as np

from .. import bootstrap as B
from ..common import OutOfDomain, Stop, abits, lay_out, lib_call
from ..engine import EventLog, Outcome, bump, h64, violation

PID = "C18"
RULE = (
    "Each run builds one data set (n 1-30, d 1-6, labels 0..K-1 all present, arbitrary non-negative ids, float32-exact"
    " features, optional duplicate rows) and executes a seeded history of 6-25 operations: write the OPF binary,"
    " opf2txt/opf2csv/opf2json (explicit or default output name), load_* + parse_loader, Subgraph(from_file=..),"
    " split / split_with_index (percentages incl. 0, 1 and m/n), merge of a split, parse of a label set with a gap,"
    " and PRNG-history faults between any two calls (consume k values from / reseed the global NumPy generator; call"
    " split with another seed). Non-trivial: n >= 2 with >= 2 classes and a PRNG-history fault separated two identical"
    " split calls, or all three formats were loaded and compared. distinct = distinct (n, d, K, op sequence) by 64-bit"
    " hash."
)
STATE_MEASURE = "distinct (n, K, op kind, percentage class [0 / 1 / m-over-n / other], PRNG perturbed since the same call was last issued?) tuples"
REAL = ["stream.splitter.split/split_with_index/merge, stream.loader.load_txt/load_csv/load_json, stream.parser.parse_loader, utils.converter.opf2txt/opf2csv/opf2json, core.Subgraph(from_file) - current working tree", "the process-global NumPy PRNG", "real files in a per-run scratch directory"]
STUBBED = ["np.random.seed / np.random.permutation wrapped by pass-through counters (seam-engagement probe only)", "the OPF binary input file is written by the harness (struct <iii header, <ii+d*f records, label+1)", "logging disabled"]
ASSUMPTIONS = [
    "The first set of a split has floor(n*percentage) rows; both the float product and the exact rational product are accepted where they differ.",
    "Scratch paths contain no dot besides the extension (the converters derive default output names by splitting at the first dot).",
]


EXPECTED_PROBES = ['explicit_output_name_with_other_extension', 'subset_file_without_first_class', 'infinite_feature_values', 'integer_percentage', 'negative_identifiers', 'file_of_several_hundred_kib', 'binary_file_replaced_at_same_path', 'split_input_not_plain_float64_c_order', 'caller_overwrote_split_outputs', 'all_three_formats_compared', 'empty_first_set', 'empty_second_set', 'float_and_exact_floor_differ', 'gap_labels_rejected', 'ids_beyond_float32_exact_range', 'ids_differ_from_row_numbers', 'pct_times_n_is_an_integer', 'single_sample_file_loaded', 'split_reissued_after_prng_perturbation', 'three_or_more_classes']

SLOW_ARMS = ("big",)


def arms(tier):
    if tier == "thorough":
        return [("mixed", 2_500_000), ("split", 2_500_000), ("big", 1_500)]
    return [("mixed", 100_000), ("split", 100_000), ("big", 48)]


def hist_slice(tier):
    return 4 if tier == "thorough" else 1


def f32(x):
    return float(np.float32(x))


def gen_case(rng, arm, tier, k=0):
    n = rng.choice((1, 1, 2, 2, 3, 4, 5, 7, 10, 16, 30)) if rng.random() < 0.5 else rng.randint(1, 30)
    d = rng.randint(1, 6)
    if arm == "big":
        # files well beyond any internal buffer size (hundreds of KiB of records)
        n = rng.choice((6000, 9000, 12000, 17000))
        d = rng.randint(1, 7)
    K = rng.randint(1, min(4, n))
    style = rng.choice(("generic", "lattice", "unique"))
    X = []
    for i in range(n):
        if style == "lattice":
            X.append([float(rng.randint(0, 2)) for _ in range(d)])
        else:
            X.append([f32(round(rng.uniform(-5, 5), 3)) for _ in range(d)])
    if style == "unique":
        for i in range(n):
            X[i][0] = float(i) + 0.5
    if rng.random() < 0.08:
        # +inf / -inf are legal float32 feature values
        for _ in range(rng.randint(1, 3)):
            X[rng.randrange(n)][rng.randrange(d)] = rng.choice((float("inf"), float("-inf"), float("nan")))
    Y = list(range(K)) + [rng.randrange(K) for _ in range(n - K)]
    rng.shuffle(Y)
    r = rng.random()
    if r < 0.35:
        ids = list(range(n))
    elif r < 0.65:
        ids = rng.sample(range(0, max(500, 3 * n)), n)
    elif r < 0.85:
        base = rng.choice((2**24 - 3, 2**24 + 1, 20_000_000, 2**30 + 7))  # beyond float32's exact integers
        ids = [base + 1 + 2 * i + rng.randint(0, 1) for i in range(n)]
    else:
        ids = sorted(rng.sample(range(0, 2**31 - 1), n))
        ids[-1] = 2**31 - 1
    if rng.random() < 0.15:
        # identifiers are signed 32-bit integers in the binary format: negative ones are legal
        ids = [-i - 1 if rng.random() < 0.6 else i for i in ids]
        if rng.random() < 0.7:
            ids[0] = max(-(2**31), -abs(ids[0]) - 1)
    case = {"n": n, "d": d, "K": K, "X": X, "Y": Y, "ids": ids, "style": style, "xform": rng.choice(("c", "c", "c", "f", "strided", "cols", "float32"))}
    ops = []
    if arm == "big":
        fm = ["txt", "csv", "json"]
        rng.shuffle(fm)
        case["ops"] = [["write_opf"]] + [["conv", f_, rng.random() < 0.5] for f_ in fm[:2]] + [["load", f_] for f_ in fm[:2]]
        return case
    if arm == "mixed":
        ops.append(["write_opf"])
    splits = []
    for _ in range(rng.randint(6, 25)):
        r = rng.random()
        if arm == "mixed" and r < 0.18:
            ops.append(["conv", rng.choice(("txt", "csv", "json")), rng.random() < 0.5])
        elif arm == "mixed" and r < 0.36:
            ops.append(["load", rng.choice(("txt", "csv", "json"))])
        elif arm == "mixed" and r < 0.42:
            ops.append(["subgraph", rng.choice(("txt", "csv", "json"))])
        elif arm == "mixed" and r < 0.44:
            ops.append(["parse_gap", rng.randint(1, 3)])
        elif arm == "mixed" and r < 0.455:
            # label columns whose distinct values are not exactly 0..K-1 although their number may
            # equal max+1 (negative, fractional, doubled): parse_loader must reject every one
            ops.append(["parse_odd", rng.randint(0, 5), rng.randint(0, 10**6)])
        elif arm == "mixed" and r < 0.47:
            # fault: a binary file cut short in its last record - converting it must fail, and must
            # not affect any later conversion
            ops.append(["conv_truncated", rng.choice(("txt", "csv", "json")), rng.randint(1, 9)])
        elif r < 0.65:
            if splits and rng.random() < 0.45:
                ops.append(list(rng.choice(splits)))  # re-issue an earlier call
            else:
                pr = rng.random()
                if pr < 0.12:
                    pct = 0.0
                elif pr < 0.24:
                    pct = 1.0
                elif pr < 0.30:
                    pct = ["int", rng.choice((0, 1))]  # the percentages 0 and 1 passed as integers
                elif pr < 0.6:
                    pct = rng.randint(0, n) / n
                elif pr < 0.75:
                    pct = rng.choice((0.1, 0.2, 0.3, 0.7)) * rng.choice((1, 3))
                    pct = min(pct, 1.0)
                else:
                    pct = round(rng.random(), 3)
                op = [rng.choice(("split", "split_with_index")), pct, rng.randint(0, 6)]
                splits.append(op)
                # the caller may go on to modify what it was given (sort / overwrite in place)
                ops.append(op + [True] if rng.random() < 0.35 else op)
        elif r < 0.68:
            # fault: a split refused for mismatched lengths (caught by the caller), then further use
            ops.append(["split_badsize", rng.choice(("split", "split_with_index")), rng.choice((-1, 1, 2)), rng.randint(0, 6)])
        elif r < 0.74:
            ops.append(["merge", rng.choice((0.0, 0.25, 0.5, 1.0, round(rng.random(), 2))), rng.randint(0, 6)])
        elif r < 0.88:
            ops.append(["consume", rng.randint(1, 50)])
        else:
            ops.append(["reseed", rng.randint(0, 6)])
    case["ops"] = ops
    if arm == "mixed" and rng.random() < 0.5:
        # a second data set that later replaces the first one at the same path
        n2 = rng.randint(1, 12)
        K2 = rng.randint(1, min(3, n2))
        Y2 = list(range(K2)) + [rng.randrange(K2) for _ in range(n2 - K2)]
        rng.shuffle(Y2)
        case["alt"] = {"n": n2, "d": d, "K": K2, "X": [[f32(round(rng.uniform(-5, 5), 3)) for _ in range(d)] for _ in range(n2)], "Y": Y2, "ids": rng.sample(range(0, 900), n2)}
        if rng.random() < 0.3:
            # a subset file that lacks the first class(es): every converter must still write stored-1
            sh = rng.randint(1, 2)
            case["alt"]["Y"] = [y + sh for y in Y2]
            case["alt"]["shifted"] = sh
        pos = rng.randrange(1, len(ops) + 1)
        ops.insert(pos, ["write_opf", "alt"])
    return case


def write_opf(path, case):
    n, d = len(case["X"]), case["d"]
    with open(path, "wb") as f:
        f.write(struct.pack("<iii", n, case["K"], d))
        for i in range(n):
            f.write(struct.pack("<ii" + "f" * d, case["ids"][i], case["Y"][i] + 1, *case["X"][i]))


def rows_multiset(X, Y):
    out = {}
    for i in range(len(X)):
        key = (np.ascontiguousarray(X[i], dtype=np.float64).tobytes(), int(Y[i]))
        out[key] = out.get(key, 0) + 1
    return out


def run_case(case):
    out = Outcome()
    scratch = tempfile.mkdtemp(prefix="verifc18", dir="/dev/shm" if os.path.isdir("/dev/shm") else None)
    real_seed, real_perm = np.random.seed, np.random.permutation
    try:
        n, d, K = len(case["X"]), case["d"], case["K"]
        if n < 1 or sorted(set(case["Y"])) != list(range(K)) or "." in scratch or any(len(r) != d for r in case["X"]):
            raise OutOfDomain()
        X = np.array(case["X"], dtype=np.float64).reshape(n, d)
        if not np.array_equal(X.astype(np.float32).astype(np.float64), X, equal_nan=True):
            raise OutOfDomain()
        Y = np.array(case["Y"], dtype=np.int64)
        ids = case["ids"]
        log = EventLog()

        def seed_w(*a, **kw):
            bump(out.seams, "np.random.seed_calls")
            return real_seed(*a, **kw)

        def perm_w(*a, **kw):
            bump(out.seams, "np.random.permutation_calls")
            return real_perm(*a, **kw)

        np.random.seed = seed_w
        np.random.permutation = perm_w
        real_seed(12345)
        opf_path = os.path.join(scratch, "data.opf")
        have_opf = False
        fX, fY, fids = X, Y, ids  # what the binary file currently holds
        conv = {}  # fmt -> path
        loaded_formats = set()
        split_seen = {}  # (variant, pct, seed) -> (canonical result, perturbation counter)
        perturb = 0
        norm = []
        states = set()
        interesting = False
        facts = dict(n_is_1=(n == 1))

        def caller_x():
            """The caller's feature array in this world's representation (values are float32-exact)."""
            xf = case.get("xform", "c")
            if xf == "float32":
                return X.astype(np.float32)
            if xf in ("f", "strided", "cols"):
                return lay_out(X, xf)[1]
            return X.copy()

        if case.get("xform", "c") != "c":
            bump(out.probes, "split_input_not_plain_float64_c_order")

        def pct_class(p):
            if p == 0.0:
                return "0"
            if p == 1.0:
                return "1"
            if abs(p * n - round(p * n)) < 1e-9:
                return "m/n"
            return "other"

        def check_split(variant, pct, seed, res, k):
            if variant == "split":
                X1, X2, Y1, Y2 = res
                I1 = I2 = None
            else:
                X1, X2, Y1, Y2, I1, I2 = res
            X1, X2, Y1, Y2 = np.asarray(X1), np.asarray(X2), np.asarray(Y1), np.asarray(Y2)
            exact = int(Fraction(pct) * n)
            allowed = {int(n * pct), exact}
            if len(X1) not in allowed or len(Y1) != len(X1):
                raise Stop(violation("split-size", "op #%d %s(pct=%r, seed=%d) on n=%d: first set has %d rows / %d labels, expected floor(n*pct) in %s" % (k, variant, pct, seed, n, len(X1), len(Y1), sorted(allowed)), variant=variant))
            if len(X1) + len(X2) != n or len(Y2) != len(X2):
                raise Stop(violation("split-not-a-partition", "op #%d %s: the two sets hold %d + %d rows (%d + %d labels) for n = %d" % (k, variant, len(X1), len(X2), len(Y1), len(Y2), n), variant=variant))
            got = rows_multiset(list(X1) + list(X2), list(Y1) + list(Y2))
            want = rows_multiset(X, Y)
            if got != want:
                raise Stop(violation("split-not-a-partition", "op #%d %s(pct=%r, seed=%d): the (row, label) pairs of the two sets are not the input's: each input sample must appear exactly once with its own label" % (k, variant, pct, seed), variant=variant))
            if I1 is not None:
                I = [int(i) for i in list(I1) + list(I2)]
                if sorted(I) != list(range(n)):
                    raise Stop(violation("split-index-wrong", "op #%d split_with_index: returned indices %s are not a permutation of 0..%d" % (k, I, n - 1), variant=variant))
                XX = np.vstack([X1.reshape(-1, d), X2.reshape(-1, d)])
                YY = list(Y1) + list(Y2)
                for pos, i in enumerate(I):
                    if abits(XX[pos]) != abits(X[i]) or int(YY[pos]) != int(Y[i]):
                        raise Stop(violation("split-index-wrong", "op #%d split_with_index: output row %d carries index %d but is not input row %d with its label" % (k, pos, i, i), variant=variant))
            return (abits(X1), abits(X2), abits(Y1), abits(Y2), None if I1 is None else (abits(np.asarray(I1)), abits(np.asarray(I2))))

        for k, op in enumerate(case["ops"]):
            kop = op[0]
            if kop == "write_opf":
                if len(op) > 1 and op[1] == "alt":
                    if not case.get("alt") or not have_opf:
                        continue
                    cur = case["alt"]
                    bump(out.probes, "binary_file_replaced_at_same_path")
                else:
                    cur = case
                write_opf(opf_path, cur)
                fX = np.array(cur["X"], dtype=np.float64).reshape(len(cur["X"]), d)
                fY = np.array(cur["Y"], dtype=np.int64)
                fids = cur["ids"]
                conv = {}  # files converted from the previous content are no longer "the" conversion
                loaded_formats = set()
                have_opf = True
                out.steps += 1
                norm.append(("write_opf", len(op) > 1))
            elif kop == "conv_truncated":
                if not have_opf:
                    continue
                out.steps += 1
                fmt = op[1]
                fn = {"txt": B.converter.opf2txt, "csv": B.converter.opf2csv, "json": B.converter.opf2json}[fmt]
                with open(opf_path, "rb") as f_:
                    blob = f_.read()
                cut_path = os.path.join(scratch, "cut.opf")
                with open(cut_path, "wb") as f_:
                    f_.write(blob[: max(13, len(blob) - op[2])])
                try:
                    fn(cut_path, os.path.join(scratch, "cut_out." + fmt))
                    bump(out.probes, "truncated_file_converted_without_error")
                except Exception:  # noqa: BLE001 - the expected outcome of the fault
                    bump(out.faults, "conversion_of_truncated_file_failed")
                log.add("conv_truncated", fmt)
                norm.append(("conv_truncated", fmt))
            elif kop == "conv":
                if not have_opf:
                    continue
                out.steps += 1
                fmt, explicit = op[1], op[2]
                fn = {"txt": B.converter.opf2txt, "csv": B.converter.opf2csv, "json": B.converter.opf2json}[fmt]
                if explicit and (k * 7 + len(fmt)) % 3 == 0:
                    # an explicit output name whose extension says nothing about the format
                    path = os.path.join(scratch, "explicit_%s_%s" % (fmt, ("out.data", "out", "export.csv" if fmt == "txt" else "export.txt")[k % 3]))
                    lib_call("opf2" + fmt, fn, opf_path, path)
                    bump(out.probes, "explicit_output_name_with_other_extension")
                elif explicit:
                    path = os.path.join(scratch, "explicit_%s.%s" % (fmt, fmt))
                    lib_call("opf2" + fmt, fn, opf_path, path)
                else:
                    path = os.path.join(scratch, "data." + fmt)
                    lib_call("opf2" + fmt, fn, opf_path)
                if not os.path.exists(path):
                    raise Stop(violation("converter-no-output", "opf2%s did not produce %s" % (fmt, "the requested output file" if explicit else "the default output file next to the input"), fmt=fmt, explicit=explicit))
                conv[fmt] = path
                log.add("conv", fmt, explicit)
                norm.append(("conv", fmt, explicit))
            elif kop in ("load", "subgraph"):
                fmt = op[1]
                if fmt not in conv:
                    continue
                if kop == "subgraph" and not conv[fmt].endswith("." + fmt):
                    continue  # Subgraph(from_file) picks the loader by extension: only for matching names
                out.steps += 1
                if kop == "load":
                    loader = {"txt": B.loader.load_txt, "csv": B.loader.load_csv, "json": B.loader.load_json}[fmt]
                    data = lib_call("load_" + fmt, loader, conv[fmt])
                    if data is None:
                        raise Stop(violation("loader-returned-none", "load_%s returned None for a file written by opf2%s" % (fmt, fmt), fmt=fmt, **facts))
                    raw_labels = [int(v) for v in np.asarray(data)[:, 1]] if np.asarray(data).ndim == 2 else None
                    if raw_labels != [int(v) for v in fY]:
                        raise Stop(violation("labels-not-preserved", "load_%s: the label column is %s, stored label - 1 = %s" % (fmt, (raw_labels or [])[:8], [int(v) for v in fY][:8]), fmt=fmt, op=kop, **facts))
                    if min(int(v) for v in fY) > 0:
                        # labels do not start at 0: parse_loader must reject, in every format alike
                        try:
                            B.parser.parse_loader(data)
                            accepted = True
                        except Exception:  # noqa: BLE001
                            accepted = False
                        if accepted:
                            raise Stop(violation("gap-labels-accepted", "parse_loader accepted data loaded from the .%s file whose labels %s do not start at 0" % (fmt, sorted(set(int(v) for v in fY)))))
                        bump(out.probes, "subset_file_without_first_class")
                        log.add("load-shifted", fmt)
                        norm.append(("load-shifted", fmt))
                        continue
                    res = lib_call("parse_loader(%s)" % fmt, B.parser.parse_loader, data)
                    Xl, Yl = res
                    if Xl is None:
                        raise Stop(violation("parser-returned-none", "parse_loader returned None for data loaded from the .%s file" % fmt, fmt=fmt, **facts))
                    Xl, Yl = np.asarray(Xl), np.asarray(Yl)
                    got_ids = [int(v) for v in np.asarray(data)[:, 0]]
                    if got_ids != [int(i) for i in fids]:
                        raise Stop(violation("ids-not-preserved", "ids loaded from the .%s file are %s, stored %s" % (fmt, got_ids[:6], fids[:6]), fmt=fmt))
                    what = "load_%s + parse_loader" % fmt
                elif min(int(v) for v in fY) > 0:
                    try:
                        B.subgraph_mod.Subgraph(from_file=conv[fmt])
                        accepted = True
                    except Exception:  # noqa: BLE001 - the rejection this file deserves
                        accepted = False
                    if accepted:
                        raise Stop(violation("gap-labels-accepted", "Subgraph(from_file=.%s) accepted a file whose labels %s do not start at 0" % (fmt, sorted(set(int(v) for v in fY)))))
                    continue
                else:
                    sg = lib_call("Subgraph(from_file=.%s)" % fmt, B.subgraph_mod.Subgraph, from_file=conv[fmt])
                    if len(sg.nodes) != len(fX):
                        raise Stop(violation("subgraph-from-file-wrong", "Subgraph(from_file=.%s) has %d nodes for %d stored samples" % (fmt, len(sg.nodes), len(fX)), fmt=fmt, **facts))
                    Xl = np.array([np.asarray(nd.features, dtype=np.float64) for nd in sg.nodes]).reshape(len(fX), -1)
                    Yl = np.array([nd.label for nd in sg.nodes])
                    what = "Subgraph(from_file=.%s)" % fmt
                if Xl.shape != fX.shape or abits(Xl.astype(np.float64)) != abits(fX):
                    raise Stop(violation("features-not-preserved", "%s: features differ from the stored float32 values (shape %s vs %s)" % (what, Xl.shape, fX.shape), fmt=fmt, op=kop, **facts))
                if [int(v) for v in Yl] != [int(v) for v in fY]:
                    raise Stop(violation("labels-not-preserved", "%s: labels %s differ from stored label - 1 = %s" % (what, [int(v) for v in Yl][:8], [int(v) for v in fY][:8]), fmt=fmt, op=kop, **facts))
                loaded_formats.add(fmt)
                if len(loaded_formats) == 3:
                    interesting = True
                    bump(out.probes, "all_three_formats_compared")
                if len(fX) == 1:
                    bump(out.probes, "single_sample_file_loaded")
                if list(fids) != list(range(len(fX))):
                    bump(out.probes, "ids_differ_from_row_numbers")
                if max(fids) > 2**24:
                    bump(out.probes, "ids_beyond_float32_exact_range")
                if min(fids) < 0:
                    bump(out.probes, "negative_identifiers")
                if not np.isfinite(fX).all():
                    bump(out.probes, "infinite_feature_values")
                if len(fX) > 5000:
                    bump(out.probes, "file_of_several_hundred_kib")
                if K >= 3:
                    bump(out.probes, "three_or_more_classes")
                log.add(kop, fmt)
                norm.append((kop, fmt))
            elif kop == "parse_gap":
                out.steps += 1
                if op[1] == 3 and K >= 2:
                    bad = Y - 1  # -1, 0, .., K-2: as many distinct labels as max+2, not starting at 0
                else:
                    bad = Y + (Y >= K - 1) * op[1]
                gap = np.hstack([np.arange(n).reshape(n, 1), bad.reshape(n, 1), X]).astype(np.float64)
                try:
                    res = B.parser.parse_loader(gap)
                    raised = False
                except Exception as exc:  # noqa: BLE001 - any exception is a rejection
                    raised = True
                if not raised:
                    raise Stop(violation("gap-labels-accepted", "parse_loader accepted the label set %s (not 0..K-1) and returned %s" % (sorted(set(int(v) for v in gap[:, 1])), type(res).__name__)))
                bump(out.probes, "gap_labels_rejected")
                log.add("parse_gap")
                norm.append(("parse_gap", op[1]))
            elif kop == "parse_odd":
                out.steps += 1
                r2 = random.Random(op[2])
                mode = op[1]
                lab = Y.astype(np.float64).copy()
                if mode == 0:
                    # 0..K-1 complete plus fractional values in between
                    for _ in range(r2.randint(1, 3)):
                        lab[r2.randrange(n)] = r2.randrange(max(1, K)) + r2.choice((0.5, 0.25, 0.75))
                elif mode == 1:
                    # as many distinct values as max+1, one of them negative: {-1, 0, 2}-like
                    lab = np.where(lab == K - 1, lab, lab - 1) if K >= 2 else lab - 1
                elif mode == 2:
                    # as many distinct values as max+1, one of them fractional: {0, 0.5, 2}-like
                    lab = np.where(lab == K - 1, K, lab)
                    lab[r2.randrange(n)] = r2.randrange(K + 1) + 0.5
                elif mode == 3:
                    lab = lab * 2  # 0, 2, 4, ..
                    if K == 1:
                        lab = lab + 1
                elif mode == 4:
                    lab = -lab - (K == 1)  # 0, -1, -2, ..
                else:
                    lab[r2.randrange(n)] = float("nan")
                distinct = sorted(set(float(v) for v in lab if v == v)) + (["nan"] if np.isnan(lab).any() else [])
                if distinct == [float(i) for i in range(len(distinct))]:
                    continue  # happens to be a legal label set (tiny n): no claim
                odd = np.hstack([np.arange(n).reshape(n, 1), lab.reshape(n, 1), X]).astype(np.float64)
                try:
                    res = B.parser.parse_loader(odd)
                    raised = False
                except Exception:  # noqa: BLE001 - any exception is a rejection
                    raised = True
                if not raised:
                    raise Stop(violation("gap-labels-accepted", "parse_loader accepted the label column with distinct values %s (not 0..K-1) and returned %s" % (distinct[:8], type(res).__name__), mode=mode))
                bump(out.probes, "odd_label_set_rejected_mode_%d" % mode)
                log.add("parse_odd", mode)
                norm.append(("parse_odd", mode))
            elif kop == "split_badsize":
                out.steps += 1
                fn = B.splitter.split if op[1] == "split" else B.splitter.split_with_index
                Yb = np.arange(n + op[2]) % max(1, K) if n + op[2] >= 0 else Y.copy()
                if len(Yb) == n:
                    continue
                try:
                    fn(caller_x(), Yb, 0.5, op[3])
                    bump(out.probes, "split_with_mismatched_lengths_not_refused")
                except Exception:  # noqa: BLE001 - the expected outcome of the fault
                    bump(out.faults, "split_refused_for_mismatched_lengths")
                perturb += 1
                log.add("split_badsize", op[1], op[2])
                norm.append(("split_badsize", op[1], op[2]))
            elif kop in ("split", "split_with_index"):
                out.steps += 1
                pct, seed = op[1], op[2]
                if isinstance(pct, list):
                    pct = int(pct[1]) if seed % 2 else np.int64(pct[1])
                    bump(out.probes, "integer_percentage")
                fn = B.splitter.split if kop == "split" else B.splitter.split_with_index
                res = lib_call(kop, fn, caller_x(), Y.copy(), pct, seed)
                canon = check_split(kop, pct, seed, res, k)
                key = (kop, repr(float(pct)), seed)
                reissued = key in split_seen
                if key in split_seen:
                    prev, when = split_seen[key]
                    if prev != canon:
                        raise Stop(violation("split-not-deterministic", "op #%d %s(pct=%r, seed=%d) returned a different partition than the same call earlier in the history (%d PRNG perturbations in between)" % (k, kop, pct, seed, perturb - when), variant=kop, perturbed=perturb > when))
                    if perturb > when:
                        bump(out.probes, "split_reissued_after_prng_perturbation")
                        if n >= 2 and K >= 2:
                            interesting = True
                split_seen[key] = (canon, perturb)
                perturb += 1  # a split with any seed perturbs the global PRNG for everything after it
                if len(op) > 3 and op[3]:
                    # the returned arrays belong to the caller now: it sorts / overwrites them
                    for a_ in res:
                        a_ = np.asarray(a_)
                        if a_.size and a_.flags.writeable:
                            if a_.ndim == 1:
                                a_.sort()
                                a_[...] = a_[::-1].copy()
                            else:
                                a_[...] = 0
                    bump(out.probes, "caller_overwrote_split_outputs")
                pc = pct_class(pct)
                if pc == "m/n" and 0 < pct < 1:
                    bump(out.probes, "pct_times_n_is_an_integer")
                if int(n * pct) != int(Fraction(pct) * n):
                    bump(out.probes, "float_and_exact_floor_differ")
                if len(res[0]) == 0:
                    bump(out.probes, "empty_first_set")
                if len(res[1]) == 0:
                    bump(out.probes, "empty_second_set")
                states.add(h64((n, K, kop, pc, reissued)))
                log.add(kop, pct, seed, canon[0][2][:16])
                norm.append((kop, pct, seed))
            elif kop == "merge":
                out.steps += 1
                pct, seed = op[1], op[2]
                X1, X2, Y1, Y2 = lib_call("split", B.splitter.split, caller_x(), Y.copy(), pct, seed)
                perturb += 1
                Xm, Ym = lib_call("merge", B.splitter.merge, X1, X2, Y1, Y2)
                Xm, Ym = np.asarray(Xm), np.asarray(Ym)
                if len(Xm) != n or len(Ym) != n or rows_multiset(Xm.reshape(n, -1), Ym) != rows_multiset(X, Y):
                    raise Stop(violation("merge-loses-samples", "op #%d merge(split(pct=%r, seed=%d)) does not give back the input samples with their labels" % (k, pct, seed)))
                log.add("merge", pct, seed)
                norm.append(("merge", pct, seed))
            elif kop == "consume":
                np.random.random(op[1])
                perturb += 1
                bump(out.faults, "prng_values_consumed")
                norm.append(("consume",))
            elif kop == "reseed":
                real_seed(op[1])
                perturb += 1
                bump(out.faults, "prng_reseeded")
                norm.append(("reseed",))
        out.digest = log.hexdigest()
        out.hist = h64((n, d, K, tuple(norm)))
        out.nontrivial = interesting
        out.states = states
    except Stop as s:
        out.violation = s.violation
    except OutOfDomain:
        out.ood = 1
    finally:
        np.random.seed, np.random.permutation = real_seed, real_perm
        shutil.rmtree(scratch, ignore_errors=True)
    return out


def shrink(case):
    n = len(case["X"])
    if n > 40:
        # large worlds: drop blocks of rows (half, quarter, ...) before single rows
        size = n // 2
        while size >= 8:
            for start in range(0, n, size):
                keep = [i for i in range(n) if not (start <= i < start + size)]
                if not keep:
                    continue
                c = dict(case)
                c["X"] = [case["X"][i] for i in keep]
                c["Y"] = [case["Y"][i] for i in keep]
                c["ids"] = [case["ids"][i] for i in keep]
                c["n"] = len(keep)
                if sorted(set(c["Y"])) == list(range(case["K"])):
                    yield c
            size //= 2
        return
    for i in range(n - 1, -1, -1):
        if n <= 1:
            break
        c = dict(case)
        c["X"] = case["X"][:i] + case["X"][i + 1 :]
        c["Y"] = case["Y"][:i] + case["Y"][i + 1 :]
        c["ids"] = case["ids"][:i] + case["ids"][i + 1 :]
        c["n"] = n - 1
        if sorted(set(c["Y"])) == list(range(case["K"])):
            yield c
    if case["d"] > 1:
        c = dict(case)
        c["d"] = case["d"] - 1
        c["X"] = [r[:-1] for r in case["X"]]
        yield c
    if case["ids"] != list(range(n)):
        c = dict(case)
        c["ids"] = list(range(n))
        yield c
    simple = [[float(round(v)) for v in r] for r in case["X"]]
    if simple != case["X"]:
        c = dict(case)
        c["X"] = simple
        yield c


def sample_repr(case):
    if len(case["X"]) > 60:
        c = dict(case)
        c["X"] = case["X"][:4] + ["... %d rows in all" % len(case["X"])]
        c["Y"] = case["Y"][:12] + ["..."]
        c["ids"] = case["ids"][:12] + ["..."]
        return c
    return case
