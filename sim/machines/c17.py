"""C17 - learning conserves samples and keeps the best model; pruning only discards
(DESIGN.md 4.5).

The simulator owns the PRNG: ``np.random.uniform`` is replaced for the duration of a run by
a scheduler that returns adversarially chosen swap indices (fault kind "adversarial PRNG"):
boundary values, the same index repeatedly, only prototype indices (which exhausts the
library's retry counter), or ordinary uniform values.  ``fit``/``predict`` are observed
through a subclass, ``opf_accuracy`` through its module attribute.

Oracles
  J1  conservation: at every fit inside learn and at return, the multiset of (row, label)
      over train+validation equals the initial one and both sizes are unchanged;
  J2  at return the object holds the forest of an iteration whose accuracy is maximal;
  J3  after a prediction pass on a freshly fitted model the relevant flags R satisfy:
      R is predecessor-closed, R meets the set M(x) of exhaustive winners of every predicted
      x, and every member of R is an ancestor-or-self of a member of some M(x);
  J4  every (row, label) handed to a re-fit inside prune was flagged relevant by the previous
      pass, hence the final training set is a sub-multiset of the original, labels intact.
"""

import collections

import numpy as np

from .. import bootstrap as B
from ..common import (
    SYMMETRIC_SAFE, OutOfDomain, Stop, abits, arr, dig, gen_labels, gen_matrix, iarr, lib_call,
    subgraph_state,
)
from ..engine import EventLog, Outcome, bump, h64, violation
from ..common import lay_out

PID = "C17"
RULE = (
    "Each run is one call of SupervisedOPF.learn (arms learn_adv: scheduler-chosen swap indices; learn_uni: ordinary"
    " uniform draws), SupervisedOPF.prune, fit + 1-3 prediction passes (arm relevance), or 2-4 calls out of fit / fit on"
    " other data / predict / learn / prune on one model object (arm seq), on a seeded world"
    " (n_train 3-10, n_val 2-8, d 1-3, 2-3 classes all present in both sets, styles generic/lattice/dups/positive,"
    " symmetric metrics, n_iterations 1-6). Non-trivial: learn - >= 1 swap happened and >= 2 iterations ran;"
    " prune - >= 1 row was discarded; relevance - the flagged set is neither empty nor everything. distinct ="
    " distinct (arm, world, draw schedule) by 64-bit hash."
)
STATE_MEASURE = "distinct (arm, iterations run, rows changed before each re-fit, index of the best iteration, retry-counter exhaustions) tuples"
REAL = ["SupervisedOPF.learn/prune/fit/predict, Subgraph.mark_nodes, math.general.opf_accuracy, math.random.generate_uniform_random_number, numba-jitted metrics - current working tree"]
STUBBED = [
    "np.random.uniform replaced by the scheduler for the duration of a run (returns arrays of the requested shape)",
    "SupervisedOPF subclassed by an observer whose fit/predict call the real ones",
    "opfython.math.general.opf_accuracy wrapped by a pass-through observer",
    "logging disabled",
]
ASSUMPTIONS = [
    "np.random.uniform(low, high, size) returns values in [low, high): the scheduler never returns `high` itself.",
    "J2 compares forests without the relevant flags; ties in accuracy accept any maximal iteration.",
    "J3's winner sets M(x) are recomputed exhaustively with the model's own costs and metric (same argument order as predict); runs with NaN weights give no J3 verdict.",
    "Domain guards (no verdict, counted): a swap leaves the validation labels without the top class; pruning leaves < 2 classes.",
]


EXPECTED_PROBES = ['prediction_pass_on_model_with_history_checked', 'relevance_with_precomputed_distances', 'non_contiguous_caller_arrays', 'fit_with_identifiers_unlike_positions', 'best_is_last_iteration_and_it_swapped', 'prune_on_an_already_used_object', 'accuracy_zero_in_every_iteration', 'best_iteration_is_not_last', 'learn_swapped_rows', 'more_fits_than_n_iterations', 'nan_weight_no_relevance_verdict', 'prototype_index_drawn', 'prune_discarded_rows', 'prune_dropped_a_relevant_row', 'tie_for_best_accuracy', 'unique_winner_is_first_of_conquest_order', 'winner_is_first_of_conquest_order']

SLOW_ARMS = ("learn_bigval",)


def arms(tier):
    if tier == "thorough":
        return [("learn_adv", 1_800_000), ("learn_uni", 700_000), ("prune", 1_000_000), ("relevance", 1_500_000), ("seq", 1_800_000), ("learn_bigval", 16_000)]
    return [("learn_adv", 60_000), ("learn_uni", 25_000), ("prune", 40_000), ("relevance", 60_000), ("seq", 70_000), ("learn_bigval", 480)]


def hist_slice(tier):
    return 4 if tier == "thorough" else 1


def gen_case(rng, arm, tier, k=0):
    K = rng.randint(2, 3)
    d = rng.randint(1, 3)
    style = rng.choice(("generic", "lattice", "dups", "positive", "lattice", "zeros"))
    metric = rng.choice((SYMMETRIC_SAFE + ["kullback_leibler", "neyman", "pearson", "k_divergence"]) if style in ("positive", "zeros") else ["euclidean", "squared_euclidean", "log_squared_euclidean", "manhattan", "chebyshev", "log_euclidean"])
    if style in ("lattice", "dups") and rng.random() < 0.3:
        metric = rng.choice(("canberra", "bray_curtis", "soergel", "squared_chord", "hellinger"))  # non-negative data with exact zeros
    nt = rng.randint(max(3, K), 10)
    nv = rng.randint(max(2, K), 8)
    if arm == "learn_bigval":
        # hundreds of validation samples per class: accuracies of successive iterations may differ
        # by 1e-6, and a better one must still win
        K, d, style, metric = 2, rng.randint(1, 2), "lattice", rng.choice(("euclidean", "manhattan"))
        nt = rng.randint(3, 6)
        nv = rng.choice((450, 601, 700))
    case = {
        "op": "learn" if arm.startswith("learn") else arm,
        "metric": metric,
        "style": style,
        "Xt": gen_matrix(rng, nt, d, style),
        "Yt": gen_labels(rng, nt, K),
        "Xv": gen_matrix(rng, nv, d, style),
        "Yv": gen_labels(rng, nv, K),
        "iters": rng.choice((1, 2, 3, 4, 5, 6, 8, 10)) if arm != "learn_bigval" else rng.choice((3, 5, 8)),
        "fallback": rng.getrandbits(32),
    }
    if arm == "learn_bigval":
        # Two validation classes of sizes h and h+1 (h >= 300) and a training set on a line with the
        # classes far apart.  One validation sample carries the label of the other side ("stray").
        # Exchanging it with a non-prototype training row fixes that error and - depending on the
        # row drawn - creates a single error in the *other* class: the accuracy moves by
        # 1/(2h(h+1)), a few 1e-6.  Such an improvement is still an improvement.
        h = rng.choice((300, 333, 401))
        flip = rng.random() < 0.5  # which class is the larger one
        g = rng.randint(6, 9)
        left = [0.0, 1.0, 2.0]
        right = [float(g + 4), float(g + 6)] + ([float(g + 7)] if rng.random() < 0.5 else [])
        pad = [0.0] * (d - 1)
        case["Xt"] = [[x] + pad for x in left + right]
        case["Yt"] = [0] * len(left) + [1] * len(right)
        stray_x = float(g + 5)  # inside the right-hand class, labelled as the left-hand class
        n0, n1 = (h, h + 1) if not flip else (h + 1, h)
        rows = [[0.0] + pad] * (n0 - 1) + [[stray_x] + pad] + [[float(g + 4)] + pad] * n1
        labs = [0] * n0 + [1] * n1
        order = list(range(len(rows)))
        rng.shuffle(order)
        case["Xv"] = [list(rows[o]) for o in order]
        case["Yv"] = [labs[o] for o in order]
        case["style"], case["metric"] = "lattice", metric
        case["iters"] = rng.choice((2, 3, 5))
    elif rng.random() < 0.3:
        # validation rows near/equal to training rows: high accuracies, ties between iterations
        for i in range(nv):
            j = rng.randrange(nt)
            if rng.random() < 0.7:
                case["Xv"][i] = list(case["Xt"][j])
                if rng.random() < 0.8:
                    case["Yv"][i] = case["Yt"][j]
        if sorted(set(case["Yv"])) != list(range(K)):
            case["Yv"] = gen_labels(rng, nv, K)
    draws = []
    if arm == "learn_bigval" and rng.random() < 0.5:
        draws = [["u", (len(case["Xt"]) - 1 + 0.5) / len(case["Xt"])]]
    if arm == "learn_adv":
        mode = rng.choice(("mixed", "mixed", "proto_heavy", "same", "boundary"))
        for _ in range(rng.randint(0, 40)):
            r = rng.random()
            if mode == "proto_heavy" and r < 0.8:
                draws.append(["proto", rng.randrange(8)])
            elif mode == "same" and r < 0.8:
                draws.append(["prev"])
            elif mode == "boundary" and r < 0.8:
                draws.append(rng.choice((["lo"], ["hi"])))
            elif r < 0.5:
                draws.append(["u", round(rng.random(), 4)])
            elif r < 0.65:
                draws.append(["proto", rng.randrange(8)])
            elif r < 0.8:
                draws.append(["prev"])
            else:
                draws.append(rng.choice((["lo"], ["hi"])))
    # the caller's feature arrays need not be C-contiguous (e.g. the column slice that
    # parse_loader returns, a Fortran-ordered array, every second row of a larger buffer)
    case["layout_t"] = rng.choice(("c", "c", "f", "cols", "strided"))
    case["layout_v"] = rng.choice(("c", "c", "f", "cols", "strided"))
    if arm == "prune" and K >= 3 and rng.random() < 0.4:
        # a class that occurs in the training set only (the top class stays, for opf_accuracy)
        gone = rng.randrange(K - 1)
        keep_ = [c_ for c_ in range(K) if c_ != gone]
        case["Yv"] = [y if y != gone else rng.choice(keep_) for y in case["Yv"]]
        if K - 1 not in case["Yv"]:
            case["Yv"][0] = K - 1
    if arm == "relevance":
        case["passes"] = rng.randint(1, 3)
        r_ = rng.random()
        if r_ < 0.3:
            # identifiers that differ from positions (they only name the samples)
            ids = list(range(nt + 3))
            rng.shuffle(ids)
            case["ids"] = ids[:nt]
        elif r_ < 0.6:
            # pre-computed distances that do not come from the features: samples are identified
            # by their index into the matrix (training and validation rows interleaved)
            ids = list(range(nt + nv))
            rng.shuffle(ids)
            case["ids"] = ids[:nt]
            case["val_ids"] = ids[nt:]
            case["pre_seed"] = rng.getrandbits(30)
            if rng.random() < 0.5:
                # coarse features: several validation rows share one descriptor
                for i in range(1, nv):
                    if rng.random() < 0.5:
                        case["Xv"][i] = list(case["Xv"][rng.randrange(i)])
    if arm == "seq":
        # several calls on ONE model object, sharing the caller's arrays
        case["op"] = "seq"
        case["seq"] = [rng.choice(("fit_other", "learn", "prune", "predict", "fit")) for _ in range(rng.randint(2, 4))]
        if "prune" not in case["seq"] and "learn" not in case["seq"]:
            case["seq"].append(rng.choice(("prune", "learn")))
        if rng.random() < 0.4:
            case["seq"] = case["seq"] + ["predict"]  # the object is used after learn / prune
        case["Xo"] = gen_matrix(rng, nt, d, style)
        case["Yo"] = gen_labels(rng, nt, K)
        for _ in range(rng.randint(0, 12)):
            draws.append(rng.choice((["u", round(rng.random(), 4)], ["prev"], ["proto", rng.randrange(8)])))
    case["ops"] = draws
    return case


# --------------------------------------------------------------------------- observer

_OBS = None


class Observer:
    def __init__(self, case, out, log):
        self.case = case
        self.op = case["op"]
        self.out = out
        self.log = log
        self.model = None
        self.fits = 0
        self.predicts_since_fit = 0
        self.snapshots = []  # (accuracy, forest digest, state) per accuracy call
        self.fit_inputs = []  # multiset of (row, label) passed to each fit
        self.relevant_after_pass = None
        self.caller = None  # the four live caller arrays (learn)
        self.initial = None
        self.changed_rows = []
        self.prev_train = None
        self.draw_i = 0
        self.prev_index = 0
        self.exhaust_seen = 0
        self.fallback = None
        self.violation = None

    # -- PRNG seam
    def uniform(self, low=0.0, high=1.0, size=None):
        bump(self.out.seams, "np.random.uniform_calls")
        draws = self.case["ops"]
        if self.draw_i < len(draws):
            spec = draws[self.draw_i]
            bump(self.out.faults, "adversarial_draw_" + spec[0])
        else:
            spec = ["u", self.fallback.random()]
            bump(self.out.faults, "uniform_draw")
        self.draw_i += 1
        span = high - low
        if spec[0] == "u":
            v = low + span * min(max(spec[1], 0.0), 0.999999)
        elif spec[0] == "lo":
            v = float(low)
        elif spec[0] == "hi":
            v = float(np.nextafter(high, low))
        elif spec[0] == "prev":
            v = low + min(self.prev_index + 0.5, span * 0.999999)
        elif spec[0] == "proto":
            protos = []
            try:
                protos = [i for i, n in enumerate(self.model.subgraph.nodes) if n.status == B.constants.PROTOTYPE]
            except Exception:  # noqa: BLE001
                pass
            if protos:
                v = low + protos[spec[1] % len(protos)] + 0.25
                bump(self.out.probes, "prototype_index_drawn")
            else:
                v = float(low)
        else:
            v = float(low)
        if not (low <= v < high):
            v = float(low)
        self.prev_index = int(v - low)
        self.log.add("draw", spec[0], self.prev_index)
        if size is None:
            return v
        return np.full(size, v, dtype=np.float64)

    # -- helpers
    @staticmethod
    def multiset(X, Y):
        X = np.asarray(X)
        Y = np.asarray(Y)
        return collections.Counter((np.ascontiguousarray(X[i], dtype=np.float64).tobytes(), int(np.asarray(Y[i]).ravel()[0])) for i in range(len(X)))

    @property
    def changed_rows_after_last(self):
        if self.prev_train is None:
            return 0
        Xt, Yt = self.caller[0], self.caller[1]
        cur = [np.ascontiguousarray(r, dtype=np.float64).tobytes() + bytes([int(y) % 251]) for r, y in zip(np.asarray(Xt), Yt)]
        return sum(1 for a, b in zip(cur, self.prev_train) if a != b)

    def check_conservation(self, when):
        Xt, Yt, Xv, Yv = self.caller
        if len(Xt) != self.initial_sizes[0] or len(Yt) != self.initial_sizes[0] or len(Xv) != self.initial_sizes[1] or len(Yv) != self.initial_sizes[1]:
            raise Stop(violation("learn-sizes-changed", "%s: sizes are train %d/%d, validation %d/%d but started as %s" % (when, len(Xt), len(Yt), len(Xv), len(Yv), self.initial_sizes)))
        now = self.multiset(Xt, Yt) + self.multiset(Xv, Yv)
        if now != self.initial:
            lost = self.initial - now
            dup = now - self.initial
            raise Stop(
                violation(
                    "learn-samples-not-conserved",
                    "%s: the multiset of (features, label) over training+validation changed: lost %s, gained %s"
                    % (when, _fmt(lost), _fmt(dup)),
                    labels_only=sorted(k[0] for k in lost) == sorted(k[0] for k in dup),
                )
            )

    # -- fit / predict observation
    def on_fit(self, model, X, Y):
        self.model = model
        self.fits += 1
        self.predicts_since_fit = 0
        self.out.steps += 1
        Ys = [int(np.asarray(y).ravel()[0]) for y in Y]
        op = self.op
        self.fits_in_step += 1
        if op == "learn":
            self.check_conservation("at fit #%d inside learn" % self.fits)
            cur = [np.ascontiguousarray(r, dtype=np.float64).tobytes() + bytes([y % 251]) for r, y in zip(np.asarray(X), Ys)]
            if self.prev_train is not None:
                self.changed_rows.append(sum(1 for a, b in zip(cur, self.prev_train) if a != b))
            self.prev_train = cur
        if op == "prune":
            ms = self.multiset(X, Y)
            if self.relevant_after_pass is not None:
                extra = ms - self.relevant_after_pass
                if extra:
                    raise Stop(violation("prune-kept-irrelevant", "re-fit #%d inside prune received rows that the previous pass did not flag relevant (or with other labels): %s" % (self.fits, _fmt(extra))))
                if sum(ms.values()) < self.kept_before:
                    bump(self.out.probes, "prune_discarded_rows")
                    self.discarded = True
                if ms != self.relevant_after_pass:
                    bump(self.out.probes, "prune_dropped_a_relevant_row")
            extra = ms - self.original_train
            if extra:
                raise Stop(violation("prune-not-submultiset", "fit #%d inside prune received (row, label) pairs that are not in the original training set: %s" % (self.fits, _fmt(extra))))
            self.kept_before = sum(ms.values())
        if len(Ys) == 0 or len(set(Ys)) < 2:
            raise OutOfDomain()
        self.log.add("fit", self.fits, dig(tuple(sorted(self.multiset(X, Y).items()))))

    def after_predict(self, model, X, preds, I=None):
        self.predicts_since_fit += 1
        self.out.steps += 1
        sg = model.subgraph
        R = {i for i, n in enumerate(sg.nodes) if n.relevant != B.constants.IRRELEVANT}
        self.log.add("predict", tuple(int(p) for p in preds), tuple(sorted(R)))
        if self.op == "prune":
            if self.fits_in_step == 0 or self.stale_checked is False:
                # the relevance that prune acts on must come from a classifier of the given
                # training set (a model left over from an earlier call is something else)
                have = collections.Counter((np.ascontiguousarray(nd.features, dtype=np.float64).tobytes(), int(nd.label)) for nd in sg.nodes)
                self.stale_checked = True
                if self.fits_in_step == 0 and have != self.multiset(self.caller[0], self.caller[1]):
                    raise Stop(violation("prune-relevance-from-stale-model", "prune ran its prediction pass on a classifier that was not fitted on the training set it was given (%d nodes vs %d rows; left over from an earlier call on the same object)" % (len(sg.nodes), len(self.caller[0]))))
            self.relevant_after_pass = collections.Counter(
                (np.ascontiguousarray(sg.nodes[i].features, dtype=np.float64).tobytes(), int(sg.nodes[i].label)) for i in R
            )
        if self.op == "seq-predict":
            # flags only accumulate, so two clauses of J3 hold for every pass whatever came before:
            # closure under predecessor, and "some exhaustive winner of each sample of THIS pass is
            # flagged" (the third clause needs everything predicted since the last fit: skipped)
            NIL = B.constants.NIL
            for i in R:
                pr = sg.nodes[i].pred
                if pr != NIL and pr not in R:
                    raise Stop(violation("relevance-not-closed", "training sample %d is flagged relevant but its predecessor %d is not" % (i, pr)))
            fn = model.distance_fn
            n_ = len(sg.nodes)
            for k_, x in enumerate(np.asarray(X)):
                vals = [np.maximum(sg.nodes[t].cost, fn(sg.nodes[t].features, x)) for t in range(n_)]
                if any(v != v for v in vals) or not vals:
                    continue
                best_ = min(vals)
                M_ = {t for t in range(n_) if vals[t] == best_}
                if not (R & M_):
                    raise Stop(
                        violation(
                            "relevance-conqueror-not-flagged",
                            "pass on a model with history (after %s): predicted sample #%d is won by training sample(s) %s but none of them is flagged relevant (flagged: %s)"
                            % (self.prev_step, k_, sorted(M_), sorted(R)),
                            winner_is_first=False,
                            after=self.prev_step,
                        )
                    )
            bump(self.out.probes, "prediction_pass_on_model_with_history_checked")
        elif self.predicts_since_fit == 1 or self.op == "relevance":
            self.check_relevance(model, X, R, cumulative=self.predicts_since_fit > 1, I=I)

    def check_relevance(self, model, X, R, cumulative, I=None):
        sg = model.subgraph
        nodes = sg.nodes
        n = len(nodes)
        fn = model.distance_fn
        NIL = B.constants.NIL
        # (i) closed under predecessor
        for i in R:
            p = nodes[i].pred
            if p != NIL and p not in R:
                raise Stop(violation("relevance-not-closed", "training sample %d is flagged relevant but its predecessor %d is not" % (i, p)))
        pre = model.pre_distances if model.pre_computed_distance else None
        ids_now = [int(i) for i in I] if I is not None else [None] * len(X)
        if cumulative:
            self.all_X = np.vstack([self.all_X, np.asarray(X)])
            self.all_I = self.all_I + ids_now
        else:
            self.all_X = np.asarray(X)
            self.all_I = ids_now
        winners = []
        for x, xi in zip(self.all_X, self.all_I):
            vals = []
            for t in range(n):
                # same arc weight as predict: matrix entry [training identifier][query identifier]
                # in pre-computed mode, the metric on (training features, query features) otherwise
                w = pre[nodes[t].idx][xi] if pre is not None else fn(nodes[t].features, x)
                vals.append(np.maximum(nodes[t].cost, w))
            if any(v != v for v in vals):
                bump(self.out.probes, "nan_weight_no_relevance_verdict")
                return
            best = min(vals)
            winners.append({t for t in range(n) if vals[t] == best})
        first = sg.idx_nodes[0] if sg.idx_nodes else None
        for k, M in enumerate(winners):
            if first in M:
                bump(self.out.probes, "winner_is_first_of_conquest_order")
                if M == {first}:
                    bump(self.out.probes, "unique_winner_is_first_of_conquest_order")
            if not (R & M):
                raise Stop(
                    violation(
                        "relevance-conqueror-not-flagged",
                        "predicted sample #%d %s is won by training sample(s) %s (exhaustive min of max(cost, distance)) but none of them is flagged relevant (flagged: %s; conquest order starts with %s)"
                        % (k, [float(v) for v in self.all_X[k]], sorted(M), sorted(R), first),
                        winner_is_first=first in M,
                    )
                )
        # (iii) nothing else is flagged
        allowed = set()
        for M in winners:
            for t in M:
                guard = 0
                while t != NIL and t not in allowed and guard <= n:
                    allowed.add(t)
                    t = nodes[t].pred
                    guard += 1
        extra = R - allowed
        if extra:
            raise Stop(violation("relevance-extra-flag", "training samples %s are flagged relevant although they neither win a predicted sample nor lie on a winner's path to its prototype" % sorted(extra)))
        if R and len(R) < n:
            self.rel_nontrivial = True

    def begin_step(self, op):
        """Reset everything that is per call (a sequence runs several calls on one object)."""
        self.op = op
        self.fits_in_step = 0
        self.stale_checked = False
        self.snapshots = []
        self.relevant_after_pass = None
        self.changed_rows = []
        self.prev_train = None
        self.discarded = False
        Xt, Yt, Xv, Yv = self.caller
        self.initial = self.multiset(Xt, Yt) + self.multiset(Xv, Yv)
        self.initial_sizes = (len(Xt), len(Xv))
        self.original_train = self.multiset(Xt, Yt)
        self.kept_before = len(Xt)

    def on_accuracy(self, labels, preds, acc):
        m = self.model
        st = subgraph_state(m.subgraph, skip=("relevant",)) if m is not None and m.subgraph is not None else None
        self.snapshots.append((float(acc), dig(st), st))
        self.log.add("acc", repr(float(acc)))


def _fmt(counter):
    out = []
    for (row, lab), c in sorted(counter.items())[:4]:
        out.append("%dx(%s, label %d)" % (c, np.frombuffer(row, dtype=np.float64).tolist(), lab))
    return "[" + ", ".join(out) + "]"


def make_observed(Sup):
    class ObservedOPF(Sup):
        def fit(self, X_train, Y_train, I_train=None):
            _OBS.on_fit(self, X_train, Y_train)
            return Sup.fit(self, X_train, Y_train, I_train)

        def predict(self, X_val, I_val=None):
            preds = Sup.predict(self, X_val, I_val)
            _OBS.after_predict(self, X_val, preds, I_val)
            return preds

    return ObservedOPF


def run_case(case):
    global _OBS
    import random as _random

    out = Outcome()
    log = EventLog()
    obs = Observer(case, out, log)
    obs.fallback = _random.Random(case.get("fallback", 0))
    obs.rel_nontrivial = False
    obs.discarded = False
    obs.all_X = None
    _OBS = obs
    K = max(case["Yt"]) + 1 if case["Yt"] else 0
    real_uniform = np.random.uniform
    real_acc = B.general.opf_accuracy
    try:
        if (
            len(case["Xt"]) < 2
            or len(case["Xv"]) < 1
            or sorted(set(case["Yt"])) != list(range(K))
            or K < 2
            or not set(case["Yv"]) <= set(case["Yt"])
            or max(case["Yv"]) != K - 1
        ):
            raise OutOfDomain()
        d = len(case["Xt"][0])
        _, Xt = lay_out(arr(case["Xt"]).reshape(-1, d), case.get("layout_t", "c"))
        _, Xv = lay_out(arr(case["Xv"]).reshape(-1, d), case.get("layout_v", "c"))
        Yt, Yv = iarr(case["Yt"]), iarr(case["Yv"])
        if not (Xt.flags.c_contiguous and Xv.flags.c_contiguous):
            bump(out.probes, "non_contiguous_caller_arrays")
        obs.caller = (Xt, Yt, Xv, Yv)
        obs.fits_in_step = 0
        obs.stale_checked = False

        def acc_wrapper(labels, preds):
            bump(out.seams, "opf_accuracy_calls")
            lab = np.asarray(labels)
            pr = np.asarray(preds)
            if pr.size and lab.size and pr.max() > lab.max():
                raise OutOfDomain()  # outside opf_accuracy's domain (C20): no verdict
            a = real_acc(labels, preds)
            obs.on_accuracy(labels, preds, a)
            return a

        np.random.seed(case.get("fallback", 0) % (2**32))
        np.random.uniform = obs.uniform
        B.general.opf_accuracy = acc_wrapper
        Observed = make_observed(B.supervised_mod.SupervisedOPF)
        opf = Observed(distance=case["metric"])
        op = case["op"]
        steps = case["seq"] if op == "seq" else [op]
        nontrivial = False
        state_bits = []
        for si, step in enumerate(steps):
            obs.prev_step = steps[si - 1] if si else "nothing"
            obs.begin_step(step if step in ("learn", "prune") else "relevance")
            if step == "learn":
                lib_call("learn", opf.learn, Xt, Yt, Xv, Yv, n_iterations=case["iters"])
                obs.check_conservation("at return from learn")
                if obs.fits_in_step > case["iters"]:
                    bump(out.probes, "more_fits_than_n_iterations")
                # J2
                if obs.snapshots:
                    best = max(a for a, _, _ in obs.snapshots)
                    final_state = subgraph_state(opf.subgraph, skip=("relevant",))
                    final = dig(final_state)
                    # accuracies that differ only by floating-point summation noise are a tie (the
                    # smallest genuine step of the measure is ~1/(2K n^2) >> 1e-9 for these sizes)
                    ok = [i for i, (a, dg, _) in enumerate(obs.snapshots) if a >= best - 1e-9]
                    if not any(obs.snapshots[i][1] == final for i in ok):
                        same = [i for i, (_, dg, _) in enumerate(obs.snapshots) if dg == final]
                        raise Stop(
                            violation(
                                "learn-best-model-not-kept",
                                "accuracies per iteration %s; the best is %r at iteration(s) %s but the object left by learn holds %s"
                                % ([a for a, _, _ in obs.snapshots], best, ok, ("the forest of iteration(s) %s" % same) if same else "a forest that matches no iteration"),
                                holds_last=bool(same) and same[-1] == len(obs.snapshots) - 1,
                            )
                        )
                    if ok[0] != len(obs.snapshots) - 1:
                        bump(out.probes, "best_iteration_is_not_last")
                    if ok == [len(obs.snapshots) - 1] and obs.changed_rows_after_last:
                        bump(out.probes, "best_is_last_iteration_and_it_swapped")
                    if best == 0.0:
                        bump(out.probes, "accuracy_zero_in_every_iteration")
                    if len(ok) > 1:
                        bump(out.probes, "tie_for_best_accuracy")
                swaps = sum(obs.changed_rows)
                if swaps:
                    bump(out.probes, "learn_swapped_rows")
                nontrivial = nontrivial or (swaps >= 1 and obs.fits_in_step >= 2)
                state_bits.append(("learn", obs.fits_in_step, tuple(obs.changed_rows), (max(range(len(obs.snapshots)), key=lambda i: obs.snapshots[i][0]) if obs.snapshots else -1), out.probes.get("prototype_index_drawn", 0) > 0))
            elif step == "prune":
                before_t, before_v = obs.multiset(Xt, Yt), obs.multiset(Xv, Yv)
                lib_call("prune", opf.prune, Xt, Yt, Xv, Yv, n_iterations=case["iters"])
                if obs.multiset(Xt, Yt) != before_t or obs.multiset(Xv, Yv) != before_v:
                    raise Stop(violation("prune-modified-caller-arrays", "prune changed the caller's training/validation arrays"))
                final = collections.Counter((np.ascontiguousarray(n.features, dtype=np.float64).tobytes(), int(n.label)) for n in opf.subgraph.nodes)
                extra = final - obs.original_train
                if extra:
                    raise Stop(violation("prune-not-submultiset", "the pruned classifier holds (row, label) pairs that are not in the original training set: %s" % _fmt(extra)))
                nontrivial = nontrivial or obs.discarded
                state_bits.append(("prune", obs.fits_in_step, len(opf.subgraph.nodes), len(Xt)))
                if si > 0:
                    bump(out.probes, "prune_on_an_already_used_object")
            elif step in ("fit", "fit_other"):
                if step == "fit_other":
                    lib_call("fit", opf.fit, arr(case["Xo"]).reshape(-1, d), iarr(case["Yo"]))
                else:
                    lib_call("fit", opf.fit, Xt, Yt)
                state_bits.append((step,))
            elif step == "predict":
                if opf.subgraph is None or not opf.subgraph.trained:
                    continue
                # a pass on a model with history: the union of everything predicted since its
                # last fit is unknown here, so only a fresh-fit pass gets the full J3 (below)
                obs.op = "seq-predict"
                # validation rows plus points between / beyond the current training rows
                extra = []
                nt_ = len(Xt)
                for a_ in range(nt_):
                    b_ = (a_ * 7 + 3) % nt_
                    extra.append((np.asarray(Xt[a_], dtype=np.float64) + np.asarray(Xt[b_], dtype=np.float64)) / 2.0)
                    extra.append(np.asarray(Xt[a_], dtype=np.float64) * 1.5 + 0.25)  # stays inside the data's sign domain
                lib_call("predict", opf.predict, np.vstack([np.asarray(Xv, dtype=np.float64)] + extra))
                state_bits.append((step,))
            else:
                pre_mode = case.get("pre_seed") is not None and len(case.get("ids", [])) == len(Xt) and len(case.get("val_ids", [])) == len(Xv)
                if pre_mode:
                    import random as _random

                    r_ = _random.Random(case["pre_seed"])
                    N_ = len(Xt) + len(Xv)
                    Mx = np.zeros((N_, N_))
                    for i in range(N_):
                        for j in range(i + 1, N_):
                            Mx[i, j] = Mx[j, i] = float(r_.randint(1, 5)) if r_.random() < 0.5 else round(r_.uniform(0.1, 9.0), 2)
                    opf.pre_computed_distance = True
                    opf.pre_distances = Mx
                    bump(out.probes, "relevance_with_precomputed_distances")
                if case.get("ids") and len(case["ids"]) == len(Xt):
                    lib_call("fit", opf.fit, Xt, Yt, iarr(case["ids"]))
                    bump(out.probes, "fit_with_identifiers_unlike_positions")
                else:
                    lib_call("fit", opf.fit, Xt, Yt)
                for p in range(case.get("passes", 1)):
                    # later passes predict other rows: flags accumulate over passes on one model
                    if pre_mode:
                        order = list(range(len(Xv))) if p != 2 else list(range(len(Xv)))[::-1]
                        lib_call("predict", opf.predict, Xv[order].copy(), iarr([case["val_ids"][o] for o in order]))
                    else:
                        Xq = Xv if p == 0 else (Xt if p == 1 else Xv[::-1])
                        lib_call("predict", opf.predict, Xq.copy())
                nontrivial = nontrivial or obs.rel_nontrivial
                state_bits.append(("rel", len(Xt), len([n for n in opf.subgraph.nodes if n.relevant != B.constants.IRRELEVANT])))
        out.nontrivial = nontrivial
        out.states = {h64(tuple(state_bits))}
        out.digest = log.hexdigest()
        out.hist = h64((op, tuple(steps), case["metric"], case["iters"], repr(case["Xt"]), repr(case["Yt"]), repr(case["Xv"]), repr(case["Yv"]), repr(case["ops"])))
    except Stop as s:
        out.violation = s.violation
    except OutOfDomain:
        out.ood = 1
    finally:
        np.random.uniform = real_uniform
        B.general.opf_accuracy = real_acc
        _OBS = None
    return out


# --------------------------------------------------------------------------- shrink


def shrink(case):
    for key, lab in (("Xv", "Yv"), ("Xt", "Yt")):
        for i in range(len(case[key]) - 1, -1, -1):
            c = dict(case)
            c[key] = case[key][:i] + case[key][i + 1 :]
            c[lab] = case[lab][:i] + case[lab][i + 1 :]
            yield c
    for key in ("layout_t", "layout_v"):
        if case.get(key, "c") != "c":
            c = dict(case)
            c[key] = "c"
            yield c
    if case.get("ids"):
        c = dict(case)
        c.pop("ids")
        yield c
    if case["iters"] > 1:
        c = dict(case)
        c["iters"] = case["iters"] - 1
        yield c
    if case.get("passes", 1) > 1:
        c = dict(case)
        c["passes"] = case["passes"] - 1
        yield c
    for key in ("Xt", "Xv"):
        simple = [[float(round(v)) for v in row] for row in case[key]]
        if simple != case[key]:
            c = dict(case)
            c[key] = simple
            yield c
    if case["metric"] != "euclidean":
        c = dict(case)
        c["metric"] = "euclidean"
        yield c
    for i, dspec in enumerate(case["ops"]):
        if dspec[0] != "u":
            c = dict(case)
            c["ops"] = case["ops"][:i] + [["u", 0.5]] + case["ops"][i + 1 :]
            yield c


def sample_repr(case):
    return case
