"""Seeded batch runner, minimiser, replay and evidence writer shared by all machines.

One integer (VERIF_SEED) decides a batch; run *i* of property *P* is decided by
``derive_seed(VERIF_SEED, P, i)``.  A run is: generate a *case* (pure data:
swarm configuration, explicit world, operation-and-fault list) from
``random.Random(run_seed)``, then execute it against the real library.  The
executor is a pure function of the case, so a replay file (= the case) needs no
PRNG at all.
"""

import faulthandler
import hashlib
import json
import multiprocessing as mp
import os
import random
import signal
import subprocess
import sys
import time
import traceback

ENGINE_VERSION = 3

VERIF_DIR = os.path.dirname(os.path.dirname(os.path.abspath(__file__)))


# --------------------------------------------------------------------------- seeds


def derive_seed(verif_seed, pid, i):
    h = hashlib.blake2b(("%d:%s:%d" % (verif_seed, pid, i)).encode(), digest_size=8).digest()
    return int.from_bytes(h, "big")


def h64(obj):
    """64-bit stable hash of a repr-able value (never Python's salted hash())."""
    return int.from_bytes(hashlib.blake2b(repr(obj).encode(), digest_size=8).digest(), "big")


# --------------------------------------------------------------------------- outcome


class SimTimeout(BaseException):
    """Raised by the per-run alarm: the run made no progress within the wall guard."""


class SimAbort(Exception):
    """The injected 'aborted call' fault."""


class Outcome:
    __slots__ = (
        "violation",
        "digest",
        "steps",
        "faults",
        "probes",
        "hist",
        "nontrivial",
        "states",
        "harness_error",
        "seams",
        "ood",
    )

    def __init__(self):
        self.violation = None  # {"clause": str, "msg": str, "facts": {...}}
        self.digest = ""  # event-log digest
        self.steps = 0
        self.faults = {}
        self.probes = {}
        self.hist = 0  # 64-bit hash of the normalised history
        self.nontrivial = False
        self.states = ()  # iterable of 64-bit ints
        self.harness_error = None
        self.seams = {}
        self.ood = 0  # out-of-domain stops


def bump(d, k, n=1):
    d[k] = d.get(k, 0) + n


class EventLog:
    """Append-only log of (op, result-digest) records; its hash is the run's
    fingerprint used by the determinism self-test.  Never reads a clock or a PRNG."""

    def __init__(self):
        self._h = hashlib.blake2b(digest_size=16)
        self.n = 0

    def add(self, *rec):
        self._h.update(repr(rec).encode())
        self._h.update(b"\n")
        self.n += 1

    def hexdigest(self):
        return self._h.hexdigest()


def violation(clause, msg, **facts):
    return {"clause": clause, "msg": msg, "facts": facts}


# --------------------------------------------------------------------------- exception classification


def _tb_frames(exc):
    tb = exc.__traceback__
    frames = []
    while tb is not None:
        frames.append((tb.tb_frame.f_code.co_filename, tb.tb_frame.f_code.co_name, tb.tb_lineno))
        tb = tb.tb_next
    return frames


def library_site(exc, repo_pkg):
    """Innermost frame of ``exc`` inside the tree under check, as
    (relative file, function, line) or None when no library frame is on the stack."""
    site = None
    for fn, func, line in _tb_frames(exc):
        if fn.startswith(repo_pkg):
            site = (fn[len(repo_pkg):], func, line)
    return site


def raised_violation(exc, repo_pkg, op_desc, extra_clause=""):
    """Turn an exception that escaped a library call on a valid world into a
    violation (class ``raised``) or re-raise it as a harness error."""
    site = library_site(exc, repo_pkg)
    if site is None:
        raise exc
    kind = "no-progress" if isinstance(exc, SimTimeout) else "raised"
    return violation(
        "%s%s:%s@%s:%s" % (kind, extra_clause, type(exc).__name__, site[0], site[1]),
        "%s during %s at opfython/%s:%d (%s): %s"
        % (type(exc).__name__, op_desc, site[0], site[2], site[1], str(exc)[:200]),
        where="%s:%s" % (site[0], site[1]),
        op=op_desc,
    )


# --------------------------------------------------------------------------- per-run wall guard

_RUN_GUARD_S = float(os.environ.get("VERIF_RUN_GUARD_S", "90"))


def _alarm(signum, frame):
    raise SimTimeout("run exceeded the %.0f s wall guard" % _RUN_GUARD_S)


def guarded_run(machine, case, guard_s=None):
    """Execute one case.  Library hangs become SimTimeout inside run_case (which
    classifies them); anything that escapes run_case is a harness error."""
    g = _RUN_GUARD_S if guard_s is None else guard_s
    signal.signal(signal.SIGALRM, _alarm)
    signal.setitimer(signal.ITIMER_REAL, g)
    try:
        out = machine.run_case(case)
    except SimTimeout as exc:
        out = Outcome()
        out.harness_error = "timeout outside library call: " + "".join(traceback.format_exception(exc))[-1500:]
    except Exception as exc:  # noqa: BLE001
        out = Outcome()
        out.harness_error = "".join(traceback.format_exception(exc))[-3000:]
    finally:
        signal.setitimer(signal.ITIMER_REAL, 0)
    return out


# --------------------------------------------------------------------------- process isolation
#
# Every chunk of runs, and every evaluation made by the minimiser, executes in a child
# forked from the parent, and the parent itself never executes library code beyond the JIT
# warm-up.  A chunk's result is therefore a pure function of (VERIF_SEED, chunk bounds): it
# cannot depend on which chunks some pool worker happened to process before (process-global
# state inside the library - caches, counters, the global PRNG - would otherwise leak from
# run to run in a scheduling-dependent way and break replay).


def _child_main(fn, arg, conn):
    try:
        res = ("ok", fn(arg))
    except BaseException as exc:  # noqa: BLE001
        res = ("err", "".join(traceback.format_exception(exc))[-3000:])
    try:
        conn.send(res)
    finally:
        conn.close()
        os._exit(0)


def run_forked(fn, args_list, workers, timeout_each=None):
    """Apply ``fn`` to every element of ``args_list``, each in its own forked child, at most
    ``workers`` at a time.  Returns (results in order with failed ones dropped, error or None)."""
    import multiprocessing.connection as mpc

    ctx = mp.get_context("fork")
    pending = list(enumerate(args_list))
    pending.reverse()
    live = {}  # conn -> (index, process, started)
    results = {}
    error = None
    while pending or live:
        while pending and len(live) < workers:
            idx, arg = pending.pop()
            parent_conn, child_conn = ctx.Pipe(duplex=False)
            sys.stdout.flush()
            sys.stderr.flush()
            proc = ctx.Process(target=_child_main, args=(fn, arg, child_conn))
            proc.start()
            child_conn.close()
            live[parent_conn] = (idx, proc, time.time())
        ready = mpc.wait(list(live), timeout=1.0)
        for conn in ready:
            idx, proc, _ = live.pop(conn)
            try:
                status, payload = conn.recv()
                if status == "ok":
                    results[idx] = payload
                else:
                    error = error or ("child for job %d raised:\n%s" % (idx, payload))
            except (EOFError, OSError):
                error = error or ("child for job %d died without a result (hang guard, OOM or crash)" % idx)
            conn.close()
            proc.join(timeout=10)
        if timeout_each is not None:
            now = time.time()
            for conn, (idx, proc, started) in list(live.items()):
                if now - started > timeout_each:
                    proc.kill()
                    live.pop(conn)
                    conn.close()
                    error = error or ("child for job %d exceeded %.0f s" % (idx, timeout_each))
    return [results[i] for i in sorted(results)], error


def _eval_cases(arg):
    """Run a list of cases sequentially in this (forked) process; report the last outcome."""
    machine = _MACHINE
    cases, guard_s = arg
    out = None
    for c in cases:
        out = guarded_run(machine, c, guard_s=guard_s)
    return {"violation": out.violation, "harness_error": out.harness_error}


def eval_isolated(machine, cases, guard_s):
    global _MACHINE
    _MACHINE = machine
    res, err = run_forked(_eval_cases, [(cases, guard_s)], 1, timeout_each=guard_s * max(1, len(cases)) + 60)
    if err or not res:
        return {"violation": None, "harness_error": err or "no result"}
    return res[0]


# --------------------------------------------------------------------------- batch

_MACHINE = None  # set in the parent before forking


def arm_of(arms, i):
    acc = 0
    for name, n in arms:
        if i < acc + n:
            return name, i - acc
        acc += n
    raise IndexError(i)


def make_case(machine, verif_seed, tier, arms, i):
    run_seed = derive_seed(verif_seed, machine.PID, i)
    rng = random.Random(run_seed)
    arm, k = arm_of(arms, i)
    case = machine.gen_case(rng, arm, tier, k)
    case["arm"] = arm
    return run_seed, case


def _run_chunk(args):
    verif_seed, tier, arms, start, end, slice_mod, want_digests, chunk_guard = args
    machine = _MACHINE
    faulthandler.dump_traceback_later(chunk_guard, exit=True)
    agg = {
        "runs": 0,
        "steps": 0,
        "faults": {},
        "probes": {},
        "seams": {},
        "hists": set(),
        "states": set(),
        "violations": [],
        "n_violating_runs": 0,
        "harness_errors": [],
        "ood": 0,
        "digests": [] if want_digests else None,
        "samples": [],
        "nontrivial_runs": 0,
        "per_arm": {},
    }
    for i in range(start, end):
        run_seed, case = make_case(machine, verif_seed, tier, arms, i)
        out = guarded_run(machine, case)
        agg["runs"] += 1
        bump(agg["per_arm"], case["arm"])
        agg["steps"] += out.steps
        agg["ood"] += out.ood
        for k, v in out.faults.items():
            bump(agg["faults"], k, v)
        for k, v in out.probes.items():
            bump(agg["probes"], k, v)
        for k, v in out.seams.items():
            bump(agg["seams"], k, v)
        if out.nontrivial:
            agg["nontrivial_runs"] += 1
            if slice_mod <= 1 or out.hist % slice_mod == 0:
                agg["hists"].add(out.hist)
        if len(agg["states"]) < 400000:
            agg["states"].update(out.states)
        if want_digests:
            agg["digests"].append((i, out.digest))
        if out.harness_error:
            if len(agg["harness_errors"]) < 3:
                agg["harness_errors"].append({"run": i, "run_seed": run_seed, "error": out.harness_error})
            else:
                agg["harness_errors"].append({"run": i})
        if out.violation is not None:
            agg["n_violating_runs"] += 1
            if len(agg["violations"]) < 12:
                agg["violations"].append({"run": i, "run_seed": run_seed, "case": case, "violation": out.violation, "chunk_start": start})
        if len(agg["samples"]) < 1 and out.nontrivial and i % 7 == 0:
            agg["samples"].append({"run": i, "run_seed": run_seed, "case": machine.sample_repr(case)})
    faulthandler.cancel_dump_traceback_later()
    agg["hists"] = sorted(agg["hists"])
    agg["states"] = sorted(agg["states"])
    return agg


def run_batch(machine, tier, verif_seed, workers, runs_override=None, want_digests=False, scale=1.0):
    """Run the whole batch for one property; returns the merged aggregate."""
    global _MACHINE
    _MACHINE = machine
    arms = machine.arms(tier)
    if runs_override is not None and want_digests:
        # determinism self-test: every arm gets the same share
        arms = [(a, max(1, runs_override // len(arms))) for a, _ in arms]
    elif runs_override is not None:
        total0 = sum(n for _, n in arms)
        arms = [(a, max(1, int(round(n * runs_override / total0)))) for a, n in arms]
    elif scale != 1.0:
        arms = [(a, max(1, int(n * scale))) for a, n in arms]
    total = sum(n for _, n in arms)
    slice_mod = machine.hist_slice(tier) if hasattr(machine, "hist_slice") else 1
    # chunk bounds never depend on the worker count (a chunk is the unit of process isolation and
    # of `prelude` replays): 192 chunks over the batch, and arms that talk to a second
    # interpreter (slow, few runs) are cut into 16 chunks of their own so they run in parallel
    slow = set(getattr(machine, "SLOW_ARMS", ()))
    bounds = [0]
    acc = 0
    for a, n in arms:
        if n <= 0:
            continue
        k = min(n, 16) if a in slow else max(1, min(n, (192 * n) // max(total, 1)))
        for c in range(1, k + 1):
            bounds.append(acc + (n * c) // k)
        acc += n
    chunk_guard = float(os.environ.get("VERIF_CHUNK_GUARD_S", "3000" if tier == "thorough" else "900"))
    jobs = [
        (verif_seed, tier, arms, bounds[c], bounds[c + 1], slice_mod, want_digests, chunk_guard)
        for c in range(len(bounds) - 1)
        if bounds[c + 1] > bounds[c]
    ]
    merged = None
    pool_error = None
    t0 = time.time()
    results, pool_error = run_forked(_run_chunk, jobs, max(1, workers))
    wall = time.time() - t0
    merged = {
        "runs": 0,
        "steps": 0,
        "faults": {},
        "probes": {},
        "seams": {},
        "hists": set(),
        "states": set(),
        "violations": [],
        "n_violating_runs": 0,
        "harness_errors": [],
        "ood": 0,
        "digests": [],
        "samples": [],
        "nontrivial_runs": 0,
        "per_arm": {},
    }
    for r in results:
        merged["runs"] += r["runs"]
        merged["steps"] += r["steps"]
        merged["ood"] += r["ood"]
        merged["nontrivial_runs"] += r["nontrivial_runs"]
        merged["n_violating_runs"] += r["n_violating_runs"]
        for key in ("faults", "probes", "seams", "per_arm"):
            for k, v in r[key].items():
                bump(merged[key], k, v)
        merged["hists"].update(r["hists"])
        if len(merged["states"]) < 3_000_000:
            merged["states"].update(r["states"])
        else:
            merged["states_capped"] = True
        merged["violations"].extend(r["violations"])
        merged["harness_errors"].extend(r["harness_errors"])
        if r["digests"]:
            merged["digests"].extend(r["digests"])
        if len(merged["samples"]) < 3:
            merged["samples"].extend(r["samples"][: 3 - len(merged["samples"])])
    if pool_error:
        merged["harness_errors"].append({"run": -1, "error": pool_error})
    merged["wall"] = wall
    merged["arms"] = arms
    merged["total"] = total
    merged["slice_mod"] = slice_mod
    merged["first_seed"] = derive_seed(verif_seed, machine.PID, 0)
    merged["last_seed"] = derive_seed(verif_seed, machine.PID, total - 1)
    if not merged["samples"]:
        # guarantee at least one written-out case
        _, case = make_case(machine, verif_seed, tier, arms, 0)
        merged["samples"].append({"run": 0, "run_seed": merged["first_seed"], "case": machine.sample_repr(case)})
    return merged


# --------------------------------------------------------------------------- minimisation


_MIN_WALL_S = float(os.environ.get("VERIF_MINIMISE_WALL_S", "150"))


def _same(machine, case, clause, budget, guard_s, prelude=()):
    # two budgets: a count (deterministic) and a generous wall cap that only matters for worlds
    # whose single evaluation is slow; running out of either costs minimality, never the verdict
    if budget[0] <= 0 or (len(budget) > 1 and time.time() > budget[1]):
        return False
    budget[0] -= 1
    res = eval_isolated(machine, list(prelude) + [case], guard_s)
    if res["harness_error"]:
        return False
    return res["violation"] is not None and res["violation"]["clause"] == clause


def ddmin_list(items, test, budget):
    """Classic ddmin over a list; ``test(sublist)`` is True when the failure persists."""
    n = 2
    while len(items) >= 2 and budget[0] > 0:
        chunk = max(1, len(items) // n)
        subsets = [items[i : i + chunk] for i in range(0, len(items), chunk)]
        reduced = False
        for idx in range(len(subsets)):
            complement = [o for j, s_ in enumerate(subsets) if j != idx for o in s_]
            if test(complement):
                items = complement
                n = max(n - 1, 2)
                reduced = True
                break
        if not reduced:
            if n >= len(items):
                break
            n = min(len(items), n * 2)
    if len(items) == 1 and budget[0] > 0 and test([]):
        items = []
    return items


def minimise(machine, case, clause, max_evals=1200, guard_s=10.0, prelude=()):
    """ddmin over the operation list, then machine-specific shrinking of
    arguments and world, keeping only candidates that fail with the same clause.
    Every evaluation runs in a freshly forked child (``prelude`` cases first)."""
    budget = [max_evals, time.time() + _MIN_WALL_S]
    case = json.loads(json.dumps(case))
    ops = case.get("ops", [])

    def with_ops(new_ops):
        c = dict(case)
        c["ops"] = new_ops
        return c

    # ---- ddmin
    ops = ddmin_list(ops, lambda sub: _same(machine, with_ops(sub), clause, budget, guard_s, prelude), budget)
    case = with_ops(ops)

    # ---- machine-specific shrink passes (greedy, restart on success)
    if hasattr(machine, "shrink"):
        improved = True
        while improved and budget[0] > 0:
            improved = False
            try:
                for cand in machine.shrink(case):
                    if budget[0] <= 0:
                        break
                    if _same(machine, cand, clause, budget, guard_s, prelude):
                        case = json.loads(json.dumps(cand))
                        improved = True
                        break
            except Exception:  # noqa: BLE001 - a shrinker bug only costs minimality, never the verdict
                traceback.print_exc()
                break
    res = eval_isolated(machine, list(prelude) + [case], guard_s)
    out = Outcome()
    out.violation = res["violation"]
    out.harness_error = res["harness_error"]
    return case, out, max_evals - budget[0]


# --------------------------------------------------------------------------- known findings


def load_known():
    p = os.path.join(VERIF_DIR, "known_findings.json")
    if not os.path.exists(p):
        return []
    with open(p) as f:
        return json.load(f).get("findings", [])


def match_known(pid, viol, known):
    """Return the *open* known finding whose signature matches this minimised
    violation, else None.  ``fixed`` entries never match (they suppress nothing)."""
    for k in known:
        if k.get("property") != pid or k.get("status") != "open":
            continue
        m = k.get("match", {})
        if m.get("clause") != viol["clause"]:
            continue
        facts = viol.get("facts", {})
        if all(facts.get(fk) == fv for fk, fv in m.get("facts", {}).items()):
            return k
    return None


# --------------------------------------------------------------------------- replay files


def replay_dir(pid):
    d = os.path.join(VERIF_DIR, "replays", pid)
    os.makedirs(d, exist_ok=True)
    return d


def write_replay(pid, verif_seed, tier, item, min_case, min_out, evals, prelude=(), note=""):
    sig = "%016x" % h64((min_out.violation["clause"], sorted(min_out.violation["facts"].items())))
    path = os.path.join(replay_dir(pid), "%s-seed%d-run%d-%s.json" % (pid, verif_seed, item["run"], sig[:10]))
    doc = {
        "property": pid,
        "engine_version": ENGINE_VERSION,
        "verif_seed": verif_seed,
        "tier": tier,
        "run_index": item["run"],
        "run_seed": item["run_seed"],
        "violation": min_out.violation,
        "original_violation": item["violation"],
        "original_ops": len(item["case"].get("ops", [])),
        "minimised_ops": len(min_case.get("ops", [])),
        "minimiser_evaluations": evals,
        "note": note,
        "prelude": list(prelude),
        "case": min_case,
    }
    with open(path, "w") as f:
        json.dump(doc, f, indent=1, sort_keys=True)
    return path


def replay_in_fresh_process(check_path, pid, path):
    """Re-execute a replay file in a fresh interpreter; returns (reproduced, clause-or-None, output)."""
    env = dict(os.environ)
    env["PYTHONHASHSEED"] = "0"
    proc = subprocess.run(
        [sys.executable, check_path, pid, "--replay", path, "--json"],
        capture_output=True,
        text=True,
        env=env,
        timeout=600,
    )
    clause = None
    for line in proc.stdout.splitlines():
        if line.startswith("REPLAY-RESULT "):
            try:
                clause = json.loads(line[len("REPLAY-RESULT "):]).get("clause")
            except ValueError:
                pass
    return proc.returncode == 1 and clause is not None, clause, proc.stdout + proc.stderr


# --------------------------------------------------------------------------- evidence


def write_evidence(machine, tier, verif_seed, merged, n_reported, known_matched, wall_total):
    ev_dir = os.path.join(VERIF_DIR, "evidence")
    if os.path.abspath(os.environ.get("VERIF_REPO", "/repo")) != "/repo":
        # a scratch copy (mutant / seeded change) is being checked: never touch the real evidence
        ev_dir = os.path.join(VERIF_DIR, "scratch", "evidence-other-tree")
    path = os.path.join(ev_dir, machine.PID + ".json")
    os.makedirs(os.path.dirname(path), exist_ok=True)
    distinct = len(merged["hists"])
    rule = machine.RULE
    if merged["slice_mod"] > 1:
        rule += (
            " distinct_nontrivial counts only histories whose 64-bit history hash is 0 modulo %d"
            " (a fixed 1/%d slice, to bound memory) - a measured lower bound; nontrivial_runs is the"
            " unsliced number of non-trivial runs." % (merged["slice_mod"], merged["slice_mod"])
        )
    wall = max(merged["wall"], 1e-9)
    doc = {
        "property_id": machine.PID,
        "tier": tier,
        "seed": verif_seed,
        "level": "exploration",
        "coverage": {
            "evaluations": merged["runs"],
            "distinct_nontrivial": distinct,
            "rule": rule,
            "samples": merged["samples"],
            "nontrivial_runs": merged["nontrivial_runs"],
            "steps": merged["steps"],
            "runs_per_hour": int(merged["runs"] / wall * 3600),
            "steps_per_hour": int(merged["steps"] / wall * 3600),
            "arms": {a: n for a, n in merged["arms"]},
            "runs_per_arm": merged["per_arm"],
            "seeds": {
                "verif_seed": verif_seed,
                "derivation": "blake2b('<VERIF_SEED>:<property>:<run index>') -> 64-bit run seed",
                "first_run_seed": merged["first_seed"],
                "last_run_seed": merged["last_seed"],
            },
            "faults_fired": dict(sorted(merged["faults"].items())),
            "probes": dict(sorted({**{k: 0 for k in getattr(machine, "EXPECTED_PROBES", [])}, **merged["probes"]}.items())),
            "states_reached": {"count": len(merged["states"]), "measure": machine.STATE_MEASURE + ("; counting stopped at the 3,000,000 cap (lower bound)" if merged.get("states_capped") else "")},
            "seam_engagement": dict(sorted(merged["seams"].items())),
            "real_components": machine.REAL,
            "stubbed_components": machine.STUBBED,
            "simulated_time": "not meaningful: no property depends on a clock; progress is counted in steps (API operations executed)",
            "out_of_domain_stops": merged["ood"],
            "violating_runs": merged["n_violating_runs"],
            "violations_reported": n_reported,
            "known_findings_matched": known_matched,
            "harness_errors": len(merged["harness_errors"]),
            "batch_wall_s": round(merged["wall"], 3),
            "engine_version": ENGINE_VERSION,
            "tree_under_check": os.environ.get("VERIF_REPO", "/repo"),
        },
        "assumptions": machine.ASSUMPTIONS,
        "wall_s": round(wall_total, 3),
        "violations": n_reported,
    }
    tmp = path + ".tmp"
    with open(tmp, "w") as f:
        json.dump(doc, f, indent=1, sort_keys=True, default=str)
    os.replace(tmp, path)
    if tier == "thorough":
        # keep a copy that later quick runs do not overwrite
        keep = os.path.join(ev_dir, "thorough")
        os.makedirs(keep, exist_ok=True)
        with open(os.path.join(keep, machine.PID + ".json"), "w") as f:
            json.dump(doc, f, indent=1, sort_keys=True, default=str)
    return path


# --------------------------------------------------------------------------- top-level check


def group_key(v):
    return (v["violation"]["clause"], tuple(sorted((k, repr(x)) for k, x in v["violation"]["facts"].items() if k in ("where", "kind", "metric_class", "op"))))


def check_property(machine, tier, verif_seed, workers, check_path, runs_override=None, scale=1.0, max_groups=6):
    t0 = time.time()
    merged = run_batch(machine, tier, verif_seed, workers, runs_override=runs_override, scale=scale)
    known = load_known()
    reported = []
    known_lines = []
    harness = list(merged["harness_errors"])

    # group violating runs, minimise the earliest run of each group
    groups = {}
    for v in sorted(merged["violations"], key=lambda x: x["run"]):
        groups.setdefault(group_key(v), v)
    seen_min_sigs = set()
    arms = merged["arms"]
    for gk, item in list(groups.items())[:max_groups]:
        clause = item["violation"]["clause"]
        attempts = []
        # (a) minimised single case; (b) the original case as generated; (c) the case preceded
        # by the earlier runs of its chunk (state that the library carries from call to call at
        # process level needs that history), with the prelude minimised too
        min_case, min_out, evals = minimise(machine, item["case"], clause)
        if min_out.violation is not None and not min_out.harness_error:
            attempts.append((min_case, min_out, evals, [], "minimised"))
        orig = json.loads(json.dumps(item["case"]))
        o_out = Outcome()
        o_out.violation = item["violation"]
        attempts.append((orig, o_out, 0, [], "not minimised: the minimised form did not reproduce in isolation"))
        done = False
        failures = []
        for case_, out_, evals_, prelude_, note_ in attempts:
            path = write_replay(machine.PID, verif_seed, tier, item, case_, out_, evals_, prelude_, note_)
            ok, got_clause, output = replay_in_fresh_process(check_path, machine.PID, path)
            if ok and got_clause == clause:
                done = (path, out_)
                break
            failures.append("replay %s (%s): got %r" % (path, note_, got_clause))
            try:
                os.unlink(path)
            except OSError:
                pass
        if not done and item["run"] > item["chunk_start"]:
            prelude = [make_case(machine, verif_seed, tier, arms, j)[1] for j in range(item["chunk_start"], item["run"])]
            res = eval_isolated(machine, prelude + [orig], 30.0)
            if res["violation"] is not None and res["violation"]["clause"] == clause:
                budget = [120]
                prelude = ddmin_list(prelude, lambda sub: _same(machine, orig, clause, budget, 30.0, sub), budget)
                p_case, p_out, p_evals = minimise(machine, orig, clause, max_evals=300, prelude=prelude)
                if p_out.violation is None:
                    p_case, p_out = orig, o_out
                path = write_replay(machine.PID, verif_seed, tier, item, p_case, p_out, p_evals + 120 - budget[0], prelude, "needs the %d earlier run(s) in `prelude` executed first in the same process" % len(prelude))
                ok, got_clause, output = replay_in_fresh_process(check_path, machine.PID, path)
                if ok and got_clause == clause:
                    done = (path, p_out)
                else:
                    failures.append("replay %s (with prelude): got %r" % (path, got_clause))
        if not done:
            harness.append({"run": item["run"], "error": "violation %r of run %d could not be reproduced in a fresh interpreter:\n  %s" % (item["violation"], item["run"], "\n  ".join(failures))})
            continue
        path, v_out = done
        viol = v_out.violation
        sig = (viol["clause"], tuple(sorted((k, repr(x)) for k, x in viol["facts"].items())))
        k = match_known(machine.PID, viol, known)
        if k is not None:
            line = "KNOWN-FINDING: property=%s %s [%s] replay=%s" % (machine.PID, k["description"], k["finding_id"], path)
            if k["finding_id"] not in [x[0] for x in known_lines]:
                known_lines.append((k["finding_id"], line))
            continue
        if sig in seen_min_sigs:
            continue
        seen_min_sigs.add(sig)
        reported.append((path, viol))

    wall_total = time.time() - t0
    ev = write_evidence(machine, tier, verif_seed, merged, len(reported), [k for k, _ in known_lines], wall_total)

    print(
        "%s %s: runs=%d steps=%d nontrivial=%d distinct=%d states=%d wall=%.1fs (%.0f runs/h) faults=%s"
        % (
            machine.PID,
            tier,
            merged["runs"],
            merged["steps"],
            merged["nontrivial_runs"],
            len(merged["hists"]),
            len(merged["states"]),
            merged["wall"],
            merged["runs"] / max(merged["wall"], 1e-9) * 3600,
            json.dumps(merged["faults"], sort_keys=True),
        )
    )
    print("%s probes=%s" % (machine.PID, json.dumps(merged["probes"], sort_keys=True)))
    print("%s evidence=%s" % (machine.PID, ev))
    for _, line in known_lines:
        print(line)
    for path, viol in reported:
        print("  violation clause=%s facts=%s" % (viol["clause"], json.dumps(viol["facts"], sort_keys=True, default=str)))
        print("  %s" % viol["msg"])
        print("VIOLATION property=%s replay=%s" % (machine.PID, path))
    if reported:
        return 1
    if harness:
        for h in harness[:3]:
            print("HARNESS-ERROR property=%s run=%s\n%s" % (machine.PID, h.get("run"), h.get("error", "")), file=sys.stderr)
        print("HARNESS-ERROR property=%s count=%d (no verdict)" % (machine.PID, len(harness)))
        return 2
    if merged["runs"] != merged["total"]:
        print("HARNESS-ERROR property=%s only %d of %d runs completed" % (machine.PID, merged["runs"], merged["total"]))
        return 2
    return 0


def replay_file(machine, path, as_json=False):
    with open(path) as f:
        doc = json.load(f)
    case = doc["case"]
    for pre in doc.get("prelude", []):
        guarded_run(machine, pre, guard_s=60.0)
    out = guarded_run(machine, case, guard_s=60.0)
    if out.harness_error:
        print("HARNESS-ERROR during replay:\n" + out.harness_error, file=sys.stderr)
        return 2
    if out.violation is None:
        print("replay %s: no violation on this tree" % path)
        if as_json:
            print("REPLAY-RESULT " + json.dumps({"clause": None}))
        return 0
    same = out.violation["clause"] == doc.get("violation", {}).get("clause")
    print("replay %s: %s (%s as recorded)" % (path, out.violation["msg"], "same clause" if same else "DIFFERENT clause"))
    if as_json:
        print("REPLAY-RESULT " + json.dumps({"clause": out.violation["clause"], "facts": out.violation["facts"]}, default=str))
    print("VIOLATION property=%s replay=%s" % (machine.PID, path))
    return 1
