"""Restart seam of C19/C10: a *fresh interpreter* (other PYTHONHASHSEED, other cwd, nothing
in memory) that sees only files.  Reads one JSON request per line on stdin, answers one JSON
line on stdout, exits on EOF."""

import json
import os
import sys
import traceback

sys.path.insert(1, os.path.dirname(os.path.dirname(os.path.abspath(__file__))))

from sim import bootstrap as B  # noqa: E402
from sim.common import dig, model_state  # noqa: E402

import numpy as np  # noqa: E402


def construct(kind):
    if kind == "supervised":
        return B.supervised_mod.SupervisedOPF()
    if kind == "semi":
        return B.semi_mod.SemiSupervisedOPF()
    if kind == "knn":
        return B.knn_mod.KNNSupervisedOPF()
    return B.unsup_mod.UnsupervisedOPF()


def handle_c10(req):
    """C10 restart: the file-backed model is constructed, fitted and used here, from the file alone."""
    from sim.common import subgraph_state
    from sim.machines import c10

    stage = "construct"
    try:
        case = {"train": req["train"], "max_k": req["max_k"], "min_k": req["min_k"]}
        A = c10.make(req["kind"], req["metric"], case, req["path"])
        D = np.array(req["D"], dtype=np.float64).reshape(len(req["D"]), -1)
        if req.get("dtype", "float64") != "float64":
            D = D.astype(req["dtype"])
        elif req.get("layout", "c") != "c":
            from sim.common import lay_out

            D = lay_out(D, req["layout"])[1]
        Y = np.array(req["Y"], dtype=np.int64)
        tr, un, te = req["train"], req["unl"], req["test"]
        stage = "fit"
        if req["kind"] == "semi":
            Xun = D[un] if un else np.zeros((0, D.shape[1]), dtype=D.dtype)
            A.fit(D[tr], Y[tr], Xun, np.array(tr, dtype=np.int64))
        else:
            A.fit(D[tr], Y[tr], np.array(tr, dtype=np.int64))
        dg = dig(subgraph_state(A.subgraph, skip=("idx",)))
        stage = "predict"
        try:
            res = A.predict(D[te], np.array(te, dtype=np.int64))
            preds = [list(x) for x in c10.canon_pred(res)]
        except Exception:  # noqa: BLE001 - the parent compares with its twin's behaviour
            preds = None
        return {"digest": dg, "preds": preds}
    except Exception as exc:  # noqa: BLE001
        return {"error": "".join(traceback.format_exception(exc))[-800:], "type": type(exc).__name__, "stage": stage}


def handle_c07(req):
    import shutil
    import tempfile

    from sim.machines import c07

    scratch = tempfile.mkdtemp(prefix="verif-c07-srv-", dir="/dev/shm" if os.path.isdir("/dev/shm") else None)
    try:
        w = c07.World(req)
        res = c07.execute(req["op"], w, scratch, "fresh")
        return {"digest": dig(c07.canon(res))}
    except Exception as exc:  # noqa: BLE001
        return {"error": "".join(traceback.format_exception(exc))[-800:], "type": type(exc).__name__, "stage": "execute"}
    finally:
        shutil.rmtree(scratch, ignore_errors=True)


_PRELOADED = [False]


def preload():
    """Load the compiled specialisations of every metric into this process WITHOUT evaluating
    anything (dispatcher.compile only compiles / reads numba's disk cache), so that the forked
    children do not each pay for it."""
    if _PRELOADED[0]:
        return
    _PRELOADED[0] = True
    from numba import float32, float64

    c64, a64, c32 = float64[::1], float64[:], float32[::1]
    for name, fn in B.distance.DISTANCES.items():
        disp = getattr(fn, "__wrapped__", fn)
        if not hasattr(disp, "compile"):
            continue
        sigs = [(c64, c64), (a64, a64), (a64, c64), (c64, a64)]
        if name in B.DTYPE_METRICS:
            sigs.append((c32, c32))
        for sig in sigs:
            try:
                disp.compile(sig)
            except Exception:  # noqa: BLE001
                pass


def in_pristine_fork(fn, req):
    """Evaluate ``fn(req)`` in a child forked from this (still pristine) process."""
    import sim.machines.c07  # noqa: F401 - imported once here (importing evaluates nothing of the library)

    preload()

    r, w = os.pipe()
    pid = os.fork()
    if pid == 0:
        try:
            os.close(r)
            rep = fn(req)
            with os.fdopen(w, "w") as f:
                f.write(json.dumps(rep))
        finally:
            os._exit(0)
    os.close(w)
    with os.fdopen(r) as f:
        data = f.read()
    os.waitpid(pid, 0)
    return json.loads(data) if data else {"error": "child produced nothing", "type": "ChildDied", "stage": "execute"}


def handle(req):
    if req.get("c10"):
        return handle_c10(req)
    if req.get("c07"):
        return in_pristine_fork(handle_c07, req)
    stage = "load"
    try:
        m = construct(req["kind"])
        m.load(req["path"])
        st = model_state(m)
        stage = "predict"
        X = np.array(req["rows"], dtype=np.float64)
        if req.get("dtype", "float64") != "float64":
            X = X.astype(req["dtype"])
        if req["pre"]:
            res = m.predict(X, np.array(req["idx"], dtype=np.int64))
        else:
            res = m.predict(X)
        if req["kind"] in ("unsup", "unsup_prop"):
            preds = [[int(p), int(c)] for p, c in zip(res[0], res[1])]
        else:
            preds = [[int(p)] for p in res]
        return {"digest": dig(st), "preds": preds, "first_fields": repr(st[:6])[:300]}
    except Exception as exc:  # noqa: BLE001
        return {"error": "".join(traceback.format_exception(exc))[-800:], "type": type(exc).__name__, "stage": stage}


def main():
    for line in sys.stdin:
        line = line.strip()
        if not line:
            continue
        rep = handle(json.loads(line))
        sys.stdout.write(json.dumps(rep) + "\n")
        sys.stdout.flush()


if __name__ == "__main__":
    main()
