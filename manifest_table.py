"""Claimed checks beyond C05 and properties whose check is still under construction."""
CLAIMED = {
 "C07": dict(ref="4.2", technique="deterministic simulation: seeded histories of API calls over shared caller-owned buffers (views, aliases, exact zeros); oracle = bitwise pristine copies (I1) and a history-free twin world (I2)",
   text="Seeded exploration of call histories that share caller-owned arrays across all 47 metrics and the four models; after every call the caller's buffers are compared bit-for-bit with pristine copies and the result with the same call on a twin world without history. Minimised replay files. Sampling, not proof.",
   note="Caller arrays are float64/int64; SupervisedOPF.learn is excluded (mutation is its purpose, see C17); a call raising the same exception type in both worlds gives no I2 verdict."),
 "C09": dict(ref="4.3", technique="deterministic simulation: seeded predict histories (batch composition, order, repetition, interleaved irrelevant calls) with an aborted-call fault injected through the distance callback; oracle = single-valuedness of every returned label against a pristine model copy",
   text="Seeded exploration of predict-call histories on one fitted model per run (all four kinds, all 47 metrics, on-the-fly and pre-computed distances) including aborted predicts; every label/cluster ever returned for a pool sample must equal the one a pristine deep copy returns for that sample alone. Minimised replay files. Sampling, not proof.",
   note="Reference is the library's own singleton prediction on a deep copy of the fitted model (no independent OPF model is needed for single-valuedness); relevance flags are excluded from the comparison."),
}
BUILDING = {p: "claimed in DESIGN.md; its simulation machine is under construction at this commit (no check registered yet)" for p in ("C10", "C17", "C18", "C19")}
