"""Claimed checks beyond C05 and properties whose check is still under construction."""
CLAIMED = {}
BUILDING = {p: "claimed in DESIGN.md; its simulation machine is under construction at this commit (no check registered yet)" for p in ("C07", "C09", "C10", "C17", "C18", "C19")}
